"""Engine X: run CrossHair obligations (one process per condition / case slice), reach twins,
native replay of counterexamples, known-finding handling.

An obligation is a dict declared in a harness module's OBLIGATIONS list:
  id        "C14.S2"                 obligation id (property id + local name)
  func      "h_rewrite"              harness function (PEP316 contract, primitive-typed arguments only)
  cases     [0,1,2] | None           case-split values (exported as VERIF_CASE)
  timeout   {"quick": 60, "thorough": 600}   per-condition CPU seconds
  encodes   ["explorerscript.source_map.SourceMap.rewrite_offsets", ...]  real functions executed symbolically
  bounds    {"quick": "...", "thorough": "..."} or str
  tiers     ["quick","thorough"]     (default both)
  known     ["rewrite-return-addr-0"] ids in known_findings.json whose predicate is excluded from this
                                      obligation (VERIF_KNOWN_MODE=exclude) and checked separately (only:<id>)
"""
from __future__ import annotations

import ast
import concurrent.futures as cf
import hashlib
import importlib
import inspect
import json
import os
import subprocess
import sys
import time
from typing import Any

ROOT = os.path.dirname(os.path.dirname(os.path.abspath(__file__)))
PY = os.path.join(ROOT, ".venv", "bin", "python")
JOBS = int(os.environ.get("VERIF_JOBS", "16"))


def _env(tier: str, case: Any, reach: bool, known_mode: str) -> dict[str, str]:
    e = dict(os.environ)
    e["VERIF_TIER"] = tier
    e["VERIF_REACH"] = "1" if reach else "0"
    e["VERIF_KNOWN_MODE"] = known_mode
    e["PYTHONPATH"] = ROOT + os.pathsep + e.get("PYTHONPATH", "")
    e["PYTHONHASHSEED"] = "0"
    e.pop("VERIF_NATIVE", None)
    if case is None:
        e.pop("VERIF_CASE", None)
    else:
        e["VERIF_CASE"] = str(case)
    return e


def run_worker(module: str, func: str, tier: str, case: Any, reach: bool, known_mode: str, timeout: float,
               path_timeout: float | None = None) -> dict[str, Any]:
    cmd = [PY, "-m", "vlib.xworker", module, func, str(timeout)]
    if path_timeout:
        cmd.append(str(path_timeout))
    t0 = time.time()
    try:
        p = subprocess.run(cmd, cwd=ROOT, env=_env(tier, case, reach, known_mode), capture_output=True, text=True,
                           timeout=timeout * 2 + 60)
        out = p.stdout
    except subprocess.TimeoutExpired as ex:
        return {"state": "unknown", "message": "wall timeout", "wall_s": time.time() - t0, "cpu_s": timeout,
                "case": case, "reach": reach}
    for line in out.splitlines():
        if line.startswith("@@RESULT@@"):
            r = json.loads(line[len("@@RESULT@@"):])
            r["case"] = case
            return r
    return {"state": "error", "message": "worker produced no result: " + (p.stderr[-2000:] if p.stderr else out[-500:]),
            "wall_s": time.time() - t0, "cpu_s": 0, "case": case, "reach": reach}


def parse_call(message: str, func: str) -> tuple[list[Any], dict[str, Any]] | None:
    """Extract the concrete arguments from a CrossHair message '... when calling f(a, b=c) (which returns ...)'."""
    key = "when calling "
    i = message.find(key)
    if i < 0:
        return None
    rest = message[i + len(key):]
    # find the matching close paren of the call expression
    depth = 0
    end = None
    in_str: str | None = None
    j = 0
    while j < len(rest):
        ch = rest[j]
        if in_str:
            if ch == "\\":
                j += 2
                continue
            if ch == in_str:
                in_str = None
        else:
            if ch in "'\"":
                in_str = ch
            elif ch in "([{":
                depth += 1
            elif ch in ")]}":
                depth -= 1
                if depth == 0:
                    end = j + 1
                    break
        j += 1
    if end is None:
        return None
    expr = rest[:end]
    try:
        node = ast.parse(expr, mode="eval").body
        assert isinstance(node, ast.Call)
        args = [ast.literal_eval(a) for a in node.args]
        kwargs = {k.arg: ast.literal_eval(k.value) for k in node.keywords if k.arg}
        return args, kwargs
    except Exception:
        return None


def replay_native(module: str, func: str, args: list[Any], kwargs: dict[str, Any], tier: str, case: Any,
                  known_mode: str = "off") -> dict[str, Any]:
    """Run the harness function on concrete arguments in a fresh interpreter (no CrossHair)."""
    payload = json.dumps({"module": module, "func": func, "args": args, "kwargs": kwargs})
    p = subprocess.run([PY, "-m", "vlib.replay", "--payload", payload], cwd=ROOT,
                       env=dict(_env(tier, case, False, known_mode), VERIF_NATIVE="1"), capture_output=True, text=True,
                       timeout=600)
    for line in p.stdout.splitlines():
        if line.startswith("@@REPLAY@@"):
            return json.loads(line[len("@@REPLAY@@"):])
    return {"outcome": "error", "detail": (p.stderr or p.stdout)[-2000:]}


def source_hashes(names: list[str]) -> dict[str, str]:
    out = {}
    for n in names:
        try:
            parts = n.split(".")
            obj = None
            for k in range(len(parts), 0, -1):
                try:
                    obj = importlib.import_module(".".join(parts[:k]))
                    for a in parts[k:]:
                        obj = getattr(obj, a)
                    break
                except ImportError:
                    continue
            src = inspect.getsource(obj)  # type: ignore
            out[n] = hashlib.sha256(src.encode()).hexdigest()[:16]
        except Exception as e:  # noqa
            out[n] = f"unavailable({type(e).__name__})"
    return out


def run_obligations(prop: str, obligations: list[dict[str, Any]], tier: str, known: list[dict[str, Any]]) -> dict[str, Any]:
    """Run all obligations; returns a result dict with per-obligation verdicts, violations, known-finding hits,
    harness errors."""
    jobs = []
    for ob in obligations:
        if tier not in ob.get("tiers", ["quick", "thorough"]):
            continue
        to = ob.get("timeout", {}).get(tier, 60 if tier == "quick" else 600)
        cases = ob.get("cases")
        if isinstance(cases, dict):
            cases = cases.get(tier)
        cases = cases if cases is not None else [None]
        ob_known = [k for k in known if k["id"] in ob.get("known", []) and k.get("status") == "known"]
        for c in cases:
            jobs.append((ob, c, False, "exclude", to))
            jobs.append((ob, c, True, "exclude", min(to, 120)))
        for k in ob_known:
            kc = k.get("case")
            jobs.append((ob, kc if kc is not None else (cases[0] if cases != [None] else None), False,
                         "only:" + k["id"], min(to, 120)))

    results: list[dict[str, Any]] = []
    t0 = time.time()
    with cf.ThreadPoolExecutor(max_workers=JOBS) as ex:
        futs = {}
        for (ob, c, reach, km, to) in jobs:
            fu = ex.submit(run_worker, ob["module"], ob["func"], tier, c, reach, km, to, ob.get("path_timeout"))
            futs[fu] = (ob, c, reach, km)
        for fu in cf.as_completed(futs):
            ob, c, reach, km = futs[fu]
            r = fu.result()
            r.update({"ob": ob["id"], "case": c, "reach": reach, "known_mode": km})
            results.append(r)

    summary: dict[str, Any] = {"obligations": [], "violations": [], "known_hits": [], "harness_errors": [],
                               "inconclusive": [], "solver_wall_s": round(time.time() - t0, 2),
                               "solver_cpu_s": round(sum(r.get("cpu_s", 0) for r in results), 2)}
    by_ob: dict[str, list[dict[str, Any]]] = {}
    for r in results:
        by_ob.setdefault(r["ob"], []).append(r)

    for ob in obligations:
        rs = by_ob.get(ob["id"])
        if rs is None:
            continue
        main = [r for r in rs if not r["reach"] and r["known_mode"] == "exclude"]
        reach = [r for r in rs if r["reach"]]
        konly = [r for r in rs if r["known_mode"].startswith("only:")]
        n_conf = 0
        n_nontrivial = 0
        for r in main:
            tw = [x for x in reach if x["case"] == r["case"]]
            twin_ok = bool(tw) and tw[0]["state"] == "refuted"
            if r["state"] == "confirmed":
                n_conf += 1
                if twin_ok:
                    n_nontrivial += 1
                else:
                    summary["harness_errors"].append(
                        {"ob": ob["id"], "case": r["case"], "what": "reach twin not refuted (vacuous harness?)",
                         "twin": tw[0] if tw else None})
            elif r["state"] == "refuted":
                _handle_cex(prop, ob, r, tier, summary, known, expected_known=None)
            elif r["state"] == "error":
                summary["harness_errors"].append({"ob": ob["id"], "case": r["case"], "what": r.get("message"),
                                                  "tb": r.get("traceback")})
            else:
                summary["inconclusive"].append({"ob": ob["id"], "case": r["case"], "state": r["state"],
                                                "message": r.get("message")})
        for r in konly:
            kid = r["known_mode"][5:]
            kent = [k for k in known if k["id"] == kid][0]
            if r["state"] == "refuted":
                _handle_cex(prop, ob, r, tier, summary, known, expected_known=kent)
            elif r["state"] == "confirmed":
                # the listed defect no longer shows inside its predicate: stale entry, not an alarm
                summary.setdefault("stale_known", []).append({"id": kid, "ob": ob["id"]})
            elif r["state"] == "error":
                summary["harness_errors"].append({"ob": ob["id"], "what": "known-only run: " + str(r.get("message"))})
            else:
                summary["inconclusive"].append({"ob": ob["id"], "case": r["case"], "state": r["state"],
                                                "message": "known-only: " + str(r.get("message"))})
        b = ob.get("bounds", "")
        if isinstance(b, dict):
            b = b.get(tier, "")
        summary["obligations"].append({
            "id": ob["id"], "harness": f'{ob["module"]}.{ob["func"]}', "what": ob.get("what", ""),
            "bounds": b, "conditions": len(main), "confirmed": n_conf,
            "confirmed_with_reach_witness": n_nontrivial,
            "cpu_s": round(sum(r.get("cpu_s", 0) for r in rs), 2),
            "encodes": source_hashes(ob.get("encodes", [])),
            "stubs": ob.get("stubs", []),
        })
    return summary


def _handle_cex(prop: str, ob: dict[str, Any], r: dict[str, Any], tier: str, summary: dict[str, Any],
                known: list[dict[str, Any]], expected_known: dict[str, Any] | None) -> None:
    parsed = parse_call(r.get("message", ""), ob["func"])
    if parsed is None:
        summary["harness_errors"].append({"ob": ob["id"], "case": r["case"],
                                          "what": "counterexample not parseable: " + str(r.get("message"))})
        return
    args, kwargs = parsed
    rep = replay_native(ob["module"], ob["func"], args, kwargs, tier, r["case"])
    if rep.get("outcome") != "fails":
        summary["harness_errors"].append({"ob": ob["id"], "case": r["case"],
                                          "what": "counterexample does not reproduce natively (tool/encoding error)",
                                          "message": r.get("message"), "replay": rep})
        return
    # classify against known findings (predicates evaluated natively on the concrete arguments)
    from findings import predicates as P

    hit = None
    for k in known:
        if k.get("status") != "known" or k["id"] not in ob.get("known", []):
            continue
        try:
            if P.evaluate(k["predicate"], args, kwargs, r["case"]):
                hit = k
                break
        except Exception:
            continue
    rec = {"property": prop, "obligation": ob["id"], "module": ob["module"], "func": ob["func"], "args": args,
           "kwargs": kwargs, "case": r["case"], "tier": tier, "crosshair_message": r.get("message"),
           "native": rep}
    if hit is not None:
        summary["known_hits"].append({"id": hit["id"], "what": hit["what"], "witness": rec})
        return
    if expected_known is not None:
        # refuted inside the predicate but predicate does not hold natively: harness error
        summary["harness_errors"].append({"ob": ob["id"], "what": "known-only counterexample outside predicate",
                                          "rec": rec})
        return
    h = hashlib.sha256(json.dumps(rec, sort_keys=True, default=str).encode()).hexdigest()[:12]
    d = os.path.join(ROOT, "replays", prop)
    os.makedirs(d, exist_ok=True)
    path = os.path.join(d, f"{ob['id']}-{h}.json")
    with open(path, "w") as fh:
        json.dump(rec, fh, indent=1, default=str)
    summary["violations"].append({"ob": ob["id"], "replay": path, "message": r.get("message"), "native": rep})
