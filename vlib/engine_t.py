"""Engine T: z3 bounded model checking of trace equivalence between two visible LTSs.

Q1(K): exists outcomes o_0..o_{K-1} such that the labels differ at some step t < K            (sat = counterexample)
Q2(K): exists outcomes such that the first K product states are pairwise distinct               (unsat = K is a
       completeness threshold: no loop-free product path of length K, so Q1(K) unsat covers every outcome sequence
       of every length)
K is doubled from 8 until Q1 is sat or Q2 is unsat; unknown or K > KMAX is inconclusive.
"""
from __future__ import annotations

import time
from typing import Any

import z3

from spec.lts import VisibleLts, TEST

KMAX = 512


class Interner:
    def __init__(self) -> None:
        self.ids: dict[str, int] = {}

    def __call__(self, label: Any) -> int:
        k = repr(label)
        if k not in self.ids:
            self.ids[k] = len(self.ids)
        return self.ids[k]


def _arr(name: str, vals: list[int]) -> Any:
    a = z3.K(z3.IntSort(), z3.IntVal(-1))
    for i, v in enumerate(vals):
        a = z3.Store(a, i, v)
    return a


class Stats:
    def __init__(self) -> None:
        self.q1 = 0
        self.q2 = 0
        self.solver_s = 0.0
        self.k_hist: dict[int, int] = {}
        self.states = 0
        self.transitions = 0


def equivalent(a: VisibleLts, b: VisibleLts, stats: Stats, timeout_ms: int = 60000,
               norm: Any = None) -> dict[str, Any]:
    """returns {"verdict": "equal"|"differ"|"unknown", "K": K, "outcomes": [...], "step": t, "labels": (la, lb)}

    Propositional encoding: one Boolean per (step, state) and side; the step relation is functional in the outcome
    bit o_t, so one-hotness is preserved by construction."""
    intern = Interner()
    nl = (lambda x: x) if norm is None else norm
    la = [intern(nl(x)) for x in a.label]
    lb = [intern(nl(x)) for x in b.label]
    nlab = len(intern.ids)
    stats.states += len(a) + len(b)
    stats.transitions += sum(2 if k == TEST else 1 for k in a.kind) + sum(2 if k == TEST else 1 for k in b.kind)

    def preds(m: VisibleLts) -> tuple[list[list[int]], list[list[int]], list[list[int]]]:
        """for each target state: sources by plain edge, by taken edge (TEST), by not-taken edge (TEST)"""
        n = len(m)
        plain: list[list[int]] = [[] for _ in range(n)]
        tk: list[list[int]] = [[] for _ in range(n)]
        ntk: list[list[int]] = [[] for _ in range(n)]
        for i in range(n):
            if m.kind[i] == TEST:
                tk[m.taken[i]].append(i)
                ntk[m.nxt[i]].append(i)
            else:
                plain[m.nxt[i]].append(i)
        return plain, tk, ntk

    pa_, pb_ = preds(a), preds(b)

    def unroll(s: z3.Solver, K: int) -> tuple[list[list[Any]], list[list[Any]], list[Any]]:
        o = [z3.Bool(f"o{t}") for t in range(K)]
        xa = [[z3.Bool(f"a{t}_{i}") for i in range(len(a))] for t in range(K)]
        xb = [[z3.Bool(f"b{t}_{i}") for i in range(len(b))] for t in range(K)]
        for (m, x, pr) in ((a, xa, pa_), (b, xb, pb_)):
            for i in range(len(m)):
                s.add(x[0][i] == (i == m.entry))
            plain, tk, ntk = pr
            for t in range(K - 1):
                for j in range(len(m)):
                    terms = [x[t][i] for i in plain[j]] + [z3.And(x[t][i], o[t]) for i in tk[j]] + \
                            [z3.And(x[t][i], z3.Not(o[t])) for i in ntk[j]]
                    s.add(x[t + 1][j] == (z3.Or(*terms) if terms else z3.BoolVal(False)))
        return xa, xb, o

    K = 8
    while K <= KMAX:
        s1 = z3.Solver()
        s1.set("timeout", timeout_ms)
        xa, xb, o = unroll(s1, K)
        mism = []
        for t in range(K):
            for l in range(nlab):
                ia = [xa[t][i] for i in range(len(a)) if la[i] == l]
                ib = [xb[t][j] for j in range(len(b)) if lb[j] == l]
                if ia and not ib:
                    mism.append(z3.Or(*ia))
                elif ia and ib:
                    mism.append(z3.And(z3.Or(*ia), z3.Not(z3.Or(*ib))))
        s1.add(z3.Or(*mism) if mism else z3.BoolVal(False))
        t0 = time.time()
        r1 = str(s1.check())
        stats.solver_s += time.time() - t0
        stats.q1 += 1
        if r1 == "sat":
            m = s1.model()
            outs = [bool(z3.is_true(m.eval(o[t], model_completion=True))) for t in range(K)]
            ra, rb = a.run(outs, K), b.run(outs, K)
            step = next((t for t in range(K) if repr(nl(ra[t])) != repr(nl(rb[t]))), None)
            stats.k_hist[K] = stats.k_hist.get(K, 0) + 1
            if step is None:
                return {"verdict": "unknown", "K": K, "why": "model does not replay on the concrete interpreters"}
            return {"verdict": "differ", "K": K, "outcomes": outs[:step + 1], "step": step,
                    "labels": (ra[step], rb[step]), "trace_a": ra[:step + 1], "trace_b": rb[:step + 1]}
        if r1 != "unsat":
            return {"verdict": "unknown", "K": K, "why": f"Q1 {r1}"}
        s2 = z3.Solver()
        s2.set("timeout", timeout_ms)
        xa, xb, o = unroll(s2, K)
        for t1 in range(K):
            for t2 in range(t1 + 1, K):
                s2.add(z3.Or(*([z3.And(xa[t1][i], z3.Not(xa[t2][i])) for i in range(len(a))] +
                               [z3.And(xb[t1][j], z3.Not(xb[t2][j])) for j in range(len(b))])))
        t0 = time.time()
        r2 = str(s2.check())
        stats.solver_s += time.time() - t0
        stats.q2 += 1
        if r2 == "unsat":
            stats.k_hist[K] = stats.k_hist.get(K, 0) + 1
            return {"verdict": "equal", "K": K}
        if r2 != "sat":
            return {"verdict": "unknown", "K": K, "why": f"Q2 {r2}"}
        K *= 2
    return {"verdict": "unknown", "K": K, "why": "K > KMAX"}
