"""Entry point: ./check <ID> [--tier quick|thorough] [--replay path]"""
from __future__ import annotations

import argparse
import importlib
import json
import os
import sys
import time
from typing import Any

ROOT = os.path.dirname(os.path.dirname(os.path.abspath(__file__)))
sys.path.insert(0, ROOT)


def main() -> int:
    ap = argparse.ArgumentParser()
    ap.add_argument("prop")
    ap.add_argument("--tier", default=os.environ.get("VERIF_TIER") or "quick")
    ap.add_argument("--replay")
    ap.add_argument("--only", help="comma separated obligation ids / part names (debugging)")
    a = ap.parse_args()
    tier = a.tier if a.tier in ("quick", "thorough") else "quick"
    seed = int(os.environ.get("VERIF_SEED", "0") or 0)
    os.environ["VERIF_TIER"] = tier

    if a.replay:
        from vlib import replay as R
        import subprocess

        env = dict(os.environ, VERIF_NATIVE="1", VERIF_REACH="0", VERIF_KNOWN_MODE="off",
                   PYTHONPATH=ROOT + os.pathsep + os.environ.get("PYTHONPATH", ""))
        p = subprocess.run([sys.executable, "-m", "vlib.replay", "--file", a.replay], cwd=ROOT, env=env, text=True,
                           capture_output=True)
        print(p.stdout.strip())
        fails = '"outcome": "fails"' in p.stdout
        if fails:
            print(f"VIOLATION property={a.prop} replay={a.replay}")
            return 1
        return 0

    from harness.registry import PROPS
    from vlib import xrunner
    from findings.predicates import load_known

    if a.prop not in PROPS:
        print(f"unknown or not-applicable property {a.prop}", file=sys.stderr)
        return 2
    spec = PROPS[a.prop]
    t0 = time.time()
    known = load_known(a.prop)
    only = set(a.only.split(",")) if a.only else None

    obligations: list[dict[str, Any]] = []
    for mname in spec.get("x", []):
        mod = importlib.import_module(mname)
        obligations.extend(mod.OBLIGATIONS)
    if only:
        obligations = [o for o in obligations if o["id"] in only]
    summary = xrunner.run_obligations(a.prop, obligations, tier, known) if obligations else {
        "obligations": [], "violations": [], "known_hits": [], "harness_errors": [], "inconclusive": [],
        "solver_wall_s": 0.0, "solver_cpu_s": 0.0}

    parts: list[dict[str, Any]] = []
    for dotted in spec.get("extra", []):
        if only and dotted.split(".")[-1] not in only and dotted not in only:
            continue
        mname, fname = dotted.rsplit(".", 1)
        fn = getattr(importlib.import_module(mname), fname)
        r = fn(tier=tier, seed=seed, known=known)
        parts.append(r)
        for key in ("violations", "known_hits", "harness_errors", "inconclusive"):
            summary[key].extend(r.get(key, []))

    # ---- report ----------------------------------------------------------------------------------------
    seen = set()
    for k in summary["known_hits"]:
        if k["id"] in seen:
            continue
        seen.add(k["id"])
        print(f"KNOWN-FINDING: property={a.prop} {k['what']}")
    for ob in summary["obligations"]:
        print(f"[X] {ob['id']}: {ob['confirmed']}/{ob['conditions']} conditions confirmed "
              f"({ob['confirmed_with_reach_witness']} with reach witness), cpu {ob['cpu_s']}s — {ob['bounds']}")
    for p in parts:
        print(f"[{p.get('engine', '?')}] {p.get('id')}: {p.get('headline', '')}")
    for i in summary["inconclusive"]:
        print(f"INCONCLUSIVE {i.get('ob')} case={i.get('case')} {i.get('state')}: {str(i.get('message'))[:200]}")
    for s in summary.get("stale_known", []):
        print(f"NOTE: known finding {s['id']} no longer reproduces inside its predicate (stale entry)")
    for h in summary["harness_errors"]:
        print(f"HARNESS-ERROR {json.dumps(h, default=str)[:1500]}")
    shown: dict[str, int] = {}
    for v in summary["violations"]:
        shown[v.get("ob")] = shown.get(v.get("ob"), 0) + 1
        if shown[v.get("ob")] > 3:
            continue
        print(f"VIOLATION property={a.prop} replay={v['replay']}")
        print(f"  {v.get('ob')}: {str(v.get('message'))[:300]}")
    for ob_id, n in shown.items():
        if n > 3:
            print(f"  ... {n - 3} more counterexamples for {ob_id} (other case slices), replays under replays/{a.prop}/")

    # ---- evidence ---------------------------------------------------------------------------------------
    n_ob = sum(o["conditions"] for o in summary["obligations"]) + sum(p.get("obligations", 0) for p in parts)
    n_dis = sum(o["confirmed"] for o in summary["obligations"]) + sum(p.get("discharged", 0) for p in parts)
    n_nt = sum(o["confirmed_with_reach_witness"] for o in summary["obligations"]) + sum(
        p.get("distinct_nontrivial", 0) for p in parts)
    samples: list[Any] = [{"obligation": o["id"], "harness": o["harness"], "what": o["what"], "bounds": o["bounds"],
                           "conditions": o["conditions"], "confirmed": o["confirmed"]} for o in summary["obligations"]]
    for p in parts:
        samples.extend(p.get("samples", [])[:6])
    for v in summary["violations"][:5]:
        samples.append({"violation": v})
    for k in summary["known_hits"][:5]:
        samples.append({"known_finding": k["id"], "witness": k.get("witness")})
    cov: dict[str, Any] = {
        "explanation": spec["explanation"],
        "evaluations": max(1, n_ob),
        "distinct_nontrivial": n_nt,
        "rule": "one evaluation = one solver-decided obligation (a CrossHair condition / case slice explored over all "
                "paths within the stated bounds, or one z3 query); non-trivial = confirmed AND its reachability twin "
                "(same precondition, post False at the assertion point) was refuted, resp. a z3 query whose "
                "satisfiable twin was found sat",
        "samples": samples,
        "obligations": n_ob,
        "discharged": n_dis,
        "inconclusive": len(summary["inconclusive"]),
        "harness_errors": len(summary["harness_errors"]),
        "known_findings_reproduced": sorted(seen),
        "functions_encoded": {o["id"]: o["encodes"] for o in summary["obligations"]},
        "stubs": {o["id"]: o["stubs"] for o in summary["obligations"] if o["stubs"]},
        "solver": {"crosshair": _ver("crosshair-tool"), "z3": _ver("z3-solver"),
                   "wall_s": summary["solver_wall_s"] + sum(p.get("solver_wall_s", 0) for p in parts),
                   "cpu_s": summary["solver_cpu_s"] + sum(p.get("solver_cpu_s", 0) for p in parts)},
        "checker_cmd": f"./check {a.prop} --tier {tier}",
        "trusted_base": ["CrossHair 0.0.110 models of Python builtins", "z3", "CPython 3.12"],
        "parts": [{k: v for k, v in p.items() if k not in ("violations", "known_hits", "harness_errors",
                                                             "inconclusive", "samples")} for p in parts],
    }
    for p in parts:
        for k in ("programs", "disagreements_checked", "exhaustive"):
            if k in p:
                cov[k] = cov.get(k, 0) + p[k] if k != "exhaustive" else p[k]
    ev = {
        "property_id": a.prop, "tier": tier, "seed": seed, "level": spec.get("level", "other"), "coverage": cov,
        "assumptions": spec.get("assumptions", []), "wall_s": round(time.time() - t0, 2),
        "violations": len(summary["violations"]),
    }
    os.makedirs(os.path.join(ROOT, "evidence"), exist_ok=True)
    with open(os.path.join(ROOT, "evidence", f"{a.prop}.json"), "w") as fh:
        json.dump(ev, fh, indent=1, default=str)

    if summary["violations"]:
        return 1
    if summary["harness_errors"]:
        return 2
    return 0


def _ver(pkg: str) -> str:
    try:
        from importlib.metadata import version

        return version(pkg)
    except Exception:
        return "?"


if __name__ == "__main__":
    sys.exit(main())
