"""CrossHair worker: analyse ONE harness function (one condition, one case slice) in this process.

usage: python -m vlib.xworker <module> <function> <per_condition_timeout> [<per_path_timeout>]
env:   VERIF_CASE (int, optional), VERIF_REACH (0/1), VERIF_TIER, VERIF_KNOWN (json list of excluded predicates)
Prints one JSON line: {"state": confirmed|refuted|unknown|pre_unsat|error, "message":..., "call":..., "cpu_s":...}
"""
from __future__ import annotations

import importlib
import json
import os
import sys
import time


def main() -> int:
    mod_name, fn_name, cond_to = sys.argv[1], sys.argv[2], float(sys.argv[3])
    path_to = float(sys.argv[4]) if len(sys.argv) > 4 else None
    t0 = time.process_time()
    w0 = time.time()
    out = {"module": mod_name, "function": fn_name, "case": os.environ.get("VERIF_CASE"),
           "reach": os.environ.get("VERIF_REACH", "0") == "1"}
    try:
        from crosshair.core_and_libs import analyze_function, run_checkables
        from crosshair.options import AnalysisOptionSet, AnalysisKind
        from crosshair.statespace import MessageType

        mod = importlib.import_module(mod_name)
        fn = getattr(mod, fn_name)
        kw = dict(
            analysis_kind=(AnalysisKind.PEP316,),
            per_condition_timeout=cond_to,
            report_all=True,
            report_verbose=False,
            max_uninteresting_iterations=sys.maxsize,
        )
        if path_to is not None:
            kw["per_path_timeout"] = path_to
        opts = AnalysisOptionSet(**kw)
        checkables = analyze_function(fn, opts)
        msgs = list(run_checkables(checkables))
        states = [m.state for m in msgs]
        out["messages"] = [{"state": m.state.name, "message": m.message, "line": m.line} for m in msgs]
        if not msgs:
            out["state"] = "error"
            out["message"] = "no conditions found"
        elif any(s in (MessageType.POST_FAIL, MessageType.POST_ERR, MessageType.EXEC_ERR) for s in states):
            out["state"] = "refuted"
            m = [m for m in msgs if m.state in (MessageType.POST_FAIL, MessageType.POST_ERR, MessageType.EXEC_ERR)][0]
            out["message"] = m.message
            out["kind"] = m.state.name
        elif any(s in (MessageType.SYNTAX_ERR, MessageType.IMPORT_ERR) for s in states):
            out["state"] = "error"
            out["message"] = "; ".join(m.message for m in msgs)
        elif all(s == MessageType.CONFIRMED for s in states):
            out["state"] = "confirmed"
        elif any(s == MessageType.PRE_UNSAT for s in states):
            out["state"] = "pre_unsat"
        else:
            out["state"] = "unknown"
            out["message"] = "; ".join(m.message for m in msgs)
    except Exception as e:  # noqa
        import traceback

        out["state"] = "error"
        out["message"] = f"{type(e).__name__}: {e}"
        out["traceback"] = traceback.format_exc()
    out["cpu_s"] = round(time.process_time() - t0, 3)
    out["wall_s"] = round(time.time() - w0, 3)
    sys.stdout.write("\n@@RESULT@@" + json.dumps(out) + "\n")
    return 0


if __name__ == "__main__":
    sys.exit(main())
