"""dev helper: python -m vlib.xdev module func timeout  (env VERIF_CASE etc.) -> state, paths, time"""
import sys, time, collections, importlib
from crosshair.core_and_libs import analyze_function, run_checkables
from crosshair.options import AnalysisOptionSet, AnalysisKind
mod = importlib.import_module(sys.argv[1]); fn = getattr(mod, sys.argv[2])
stats = collections.Counter()
kw = {}
if len(sys.argv) > 4: kw["per_path_timeout"] = float(sys.argv[4])
opts = AnalysisOptionSet(analysis_kind=(AnalysisKind.PEP316,), per_condition_timeout=float(sys.argv[3]), report_all=True,
                         max_uninteresting_iterations=sys.maxsize, stats=stats, **kw)
t = time.time()
msgs = list(run_checkables(analyze_function(fn, opts)))
print(sys.argv[2], [(m.state.name, m.message) for m in msgs], round(time.time() - t, 1), dict(stats))
