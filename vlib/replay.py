"""Native replay of a harness counterexample: call the harness function on concrete arguments, no CrossHair.

python -m vlib.replay --payload '{"module":..,"func":..,"args":[..],"kwargs":{..}}'
python -m vlib.replay --file replays/C14/xxx.json
Prints @@REPLAY@@{"outcome": "fails"|"holds"|"error", "detail": ...}
"""
from __future__ import annotations

import importlib
import json
import os
import sys
import traceback


def run(module: str, func: str, args: list, kwargs: dict) -> dict:
    try:
        mod = importlib.import_module(module)
        fn = getattr(mod, func)
    except Exception as e:  # noqa
        return {"outcome": "error", "detail": f"import: {type(e).__name__}: {e}"}
    try:
        r = fn(*args, **kwargs)
    except Exception as e:  # noqa
        return {"outcome": "fails", "detail": f"raised {type(e).__name__}: {e}",
                "traceback": traceback.format_exc()[-1500:]}
    if r is False:
        extra = getattr(mod, "LAST_DETAIL", None)
        return {"outcome": "fails", "detail": "postcondition false", "observed": extra}
    if r is True:
        return {"outcome": "holds", "detail": "postcondition true"}
    return {"outcome": "error", "detail": f"harness returned {r!r}"}


def main() -> int:
    if sys.argv[1] == "--payload":
        p = json.loads(sys.argv[2])
    else:
        p = json.load(open(sys.argv[2]))
        if p.get("case") is not None:
            os.environ["VERIF_CASE"] = str(p["case"])
        if p.get("tier"):
            os.environ.setdefault("VERIF_TIER", p["tier"])
    os.environ["VERIF_REACH"] = "0"
    os.environ.setdefault("VERIF_KNOWN_MODE", "off")
    res = run(p["module"], p["func"], p.get("args", []), p.get("kwargs", {}))
    sys.stdout.write("\n@@REPLAY@@" + json.dumps(res, default=str) + "\n")
    return 0


if __name__ == "__main__":
    sys.exit(main())
