"""Shared driver for Engine-T obligations: run a per-program task over a family in a process pool, collect
verdicts, write replay files, aggregate evidence."""
from __future__ import annotations

import ast
import hashlib
import json
import multiprocessing as mp
import os
import time
import traceback
from typing import Any, Callable, Iterable

TASK_TIMEOUT = int(os.environ.get("VERIF_TASK_TIMEOUT", "240"))


class TaskTimeout(BaseException):
    pass


ROOT = os.path.dirname(os.path.dirname(os.path.abspath(__file__)))
JOBS = int(os.environ.get("VERIF_JOBS", "16"))


def _call(args: tuple) -> dict[str, Any]:
    fn_mod, fn_name, name, prog = args
    import importlib

    import signal

    fn = getattr(importlib.import_module(fn_mod), fn_name)
    t0 = time.time()

    def _alarm(signum: int, frame: Any) -> None:
        raise TaskTimeout("".join(traceback.format_stack(frame)[-6:]))

    signal.signal(signal.SIGALRM, _alarm)
    signal.alarm(TASK_TIMEOUT)
    import contextlib
    import io

    try:
        with contextlib.redirect_stdout(io.StringIO()), contextlib.redirect_stderr(io.StringIO()):
            r = fn(name, prog)
        signal.alarm(0)
    except TaskTimeout as e:
        signal.alarm(0)
        r = {"status": "timeout", "what": f"no answer within {TASK_TIMEOUT}s", "where": str(e)[-1200:], "program": prog}
    except Exception as e:  # noqa
        signal.alarm(0)
        if "TaskTimeout" in f"{type(e).__name__}: {e}":
            # the alarm fired inside a ctypes callback (z3), which wraps it into an ordinary exception
            r = {"status": "timeout", "what": f"no answer within {TASK_TIMEOUT}s", "where": str(e)[-1200:], "program": prog}
            r["name"] = name
            r["wall_s"] = round(time.time() - t0, 3)
            return r
        r = {"status": "harness_error", "what": f"{type(e).__name__}: {e}", "tb": traceback.format_exc()[-1500:]}
    r["name"] = name
    r["wall_s"] = round(time.time() - t0, 3)
    return r


def run_family(prop: str, part_id: str, task: Callable[..., Any], programs: Iterable[tuple[str, Any]],
               known: list[dict[str, Any]], classify: Callable[[dict[str, Any]], str | None] | None = None,
               bounds: str = "", max_violation_files: int = 12, chunksize: int = 4) -> dict[str, Any]:
    """task(name, prog) -> {"status": "ok"|"violation"|"inconclusive"|"rejected"|"harness_error", ...,
    "queries": {"q1":..,"q2":..,"solver_s":..,"states":..,"transitions":..,"k_hist":{..}}, "routines": n}
    classify(result) -> id of a known finding or None"""
    t0 = time.time()
    items = [(task.__module__, task.__name__, n, p) for n, p in programs]
    res: dict[str, Any] = {"engine": "T", "id": part_id, "violations": [], "harness_errors": [], "inconclusive": [],
                           "known_hits": [], "samples": []}
    agg = {"q1": 0, "q2": 0, "solver_s": 0.0, "states": 0, "transitions": 0}
    k_hist: dict[str, int] = {}
    n_ok = n_rej = n_routines = n_equal = 0
    n_disagree = 0
    with mp.Pool(JOBS, maxtasksperchild=200) as pool:
        for r in pool.imap_unordered(_call, items, chunksize=chunksize):
            q = r.get("queries") or {}
            for k in agg:
                agg[k] += q.get(k, 0)
            for k, v in (q.get("k_hist") or {}).items():
                k_hist[str(k)] = k_hist.get(str(k), 0) + v
            if r.get("fallback"):
                res["fallbacks"] = res.get("fallbacks", 0) + 1
                if len([x for x in res["samples"] if x.get("fallback")]) < 2 and r.get("sample"):
                    res["samples"].append(r["sample"])
            n_routines += r.get("routines", 0)
            n_equal += r.get("equal", 0)
            st = r["status"]
            if st == "ok":
                n_ok += 1
                if len(res["samples"]) < 4 and r.get("sample"):
                    res["samples"].append(r["sample"])
            elif st == "rejected":
                n_rej += 1
                if len(res["samples"]) < 6:
                    res["samples"].append({"rejected": r["name"], "why": r.get("what")})
            elif st == "violation":
                n_disagree += 1
                kid = classify(r) if classify else None
                kent = [k for k in known if k["id"] == kid and k.get("status") == "known"] if kid else []
                if kent:
                    res["known_hits"].append({"id": kid, "what": kent[0]["what"], "witness": r.get("witness")})
                    continue
                rec = {"property": prop, "obligation": part_id, "module": task.__module__, "func": "replay",
                       "args": [r["name"], repr(r.get("program")), r.get("witness")], "kwargs": {}, "what": r.get("what")}
                h = hashlib.sha256(json.dumps(rec, sort_keys=True, default=str).encode()).hexdigest()[:12]
                d = os.path.join(ROOT, "replays", prop)
                os.makedirs(d, exist_ok=True)
                path = os.path.join(d, f"{part_id}-{h}.json")
                if len(res["violations"]) < max_violation_files:
                    with open(path, "w") as fh:
                        json.dump(rec, fh, indent=1, default=str)
                res["violations"].append({"ob": part_id, "replay": path, "message": f"{r['name']}: {r.get('what')}"})
            elif st == "timeout":
                kid = classify(r) if classify else None
                kent = [k for k in known if k["id"] == kid and k.get("status") == "known"] if kid else []
                if kent:
                    res["known_hits"].append({"id": kid, "what": kent[0]["what"],
                                              "witness": {"case": r["name"], "where": (r.get("where") or "")[-400:]}})
                else:
                    res["inconclusive"].append({"ob": part_id, "case": r["name"], "state": "timeout",
                                                "message": (r.get("where") or "")[-300:]})
            elif st == "inconclusive":
                res["inconclusive"].append({"ob": part_id, "case": r["name"], "state": "unknown", "message": r.get("what")})
            else:
                res["harness_errors"].append({"ob": part_id, "case": r["name"], "what": r.get("what"), "tb": r.get("tb")})
    n = len(items)
    res.update({
        "programs": n, "disagreements_checked": n_disagree, "obligations": n_routines, "discharged": n_equal,
        "distinct_nontrivial": n_equal, "rejected_by_compiler": n_rej, "accepted": n_ok + n_disagree,
        "queries": {"q1": agg["q1"], "q2": agg["q2"], "k_histogram": k_hist},
        "states": agg["states"], "transitions": agg["transitions"],
        "solver_wall_s": round(agg["solver_s"], 2), "solver_cpu_s": round(agg["solver_s"], 2),
        "wall_s": round(time.time() - t0, 1), "bounds": bounds,
        "headline": f"{n} programs, {n_routines} routine obligations, {n_equal} decided equal (Q1 unsat + Q2 unsat), "
                    f"{n_disagree} refuted, {len(res['inconclusive'])} inconclusive, {n_rej} rejected by the compiler; "
                    f"{agg['q1']}+{agg['q2']} z3 queries, solver {round(agg['solver_s'], 1)}s",
    })
    return res


def parse_prog(s: str) -> Any:
    return ast.literal_eval(s)
