"""Helpers shared by all CrossHair harnesses."""
from __future__ import annotations

import os

TIER = os.environ.get("VERIF_TIER", "quick")
REACH = os.environ.get("VERIF_REACH") == "1"
NATIVE = os.environ.get("VERIF_NATIVE") == "1"
_c = os.environ.get("VERIF_CASE")
CASE: int | None = int(_c) if _c not in (None, "", "None") else None
THOROUGH = TIER == "thorough"


def tb(quick: int, thorough: int) -> int:
    """tier bound"""
    return thorough if THOROUGH else quick


def verdict(cond: bool) -> bool:
    """Return value of a harness (`post: _`). In reach-twin mode the point where the real assertion would be
    evaluated returns False, so the twin must be *refuted*; a twin that is confirmed / unreachable exposes a
    vacuous harness."""
    if REACH:
        return False
    return bool(cond)

# logging creates LogRecords with time.time(), which CrossHair models as a symbolic float: every logger.warning in
# the code under test would add unbounded branching. Logging is not the subject of any property.
import logging as _logging

_logging.disable(_logging.CRITICAL)
