"""Engine R: Python `re` patterns -> z3 regular expressions (language level).

Zero-width assertions (\\b, ^, $, lookaround) are DROPPED, which over-approximates the language of the rule; callers
that need an under-approximation (coverage / union arguments) must skip rules with `has_assertion`.
Character categories are mapped to their ASCII cores (\\d -> [0-9], \\w -> [A-Za-z0-9_], \\s -> [ \\t\\n\\r\\f\\v]), an
under-approximation of the Unicode classes; negated categories are reported as unsupported.
"""
from __future__ import annotations

import re
import re._parser as sre_parse  # type: ignore
import re._constants as sc  # type: ignore
from typing import Any

import z3

MAXCH = 0x10FFFF  # z3 5.x strings are Unicode


class Unsupported(Exception):
    pass


class Translated:
    def __init__(self, rx: Any, has_assertion: bool, pattern: str):
        self.rx = rx
        self.has_assertion = has_assertion
        self.pattern = pattern


def _ch(c: int) -> Any:
    return z3.Re(z3.StringVal(chr(c)))


def _range(a: int, b: int) -> Any:
    return z3.Range(z3.StringVal(chr(a)), z3.StringVal(chr(b)))


def _anychar() -> Any:
    return z3.AllChar(z3.ReSort(z3.StringSort()))


def _union(xs: list[Any]) -> Any:
    if not xs:
        return z3.Empty(z3.ReSort(z3.StringSort()))
    if len(xs) == 1:
        return xs[0]
    return z3.Union(*xs)


def _concat(xs: list[Any]) -> Any:
    if not xs:
        return z3.Re(z3.StringVal(""))
    if len(xs) == 1:
        return xs[0]
    return z3.Concat(*xs)


_CATS = {
    sc.CATEGORY_DIGIT: [(48, 57)],
    sc.CATEGORY_WORD: [(48, 57), (65, 90), (97, 122), (95, 95)],
    sc.CATEGORY_SPACE: [(9, 13), (32, 32)],
}


class _T:
    def __init__(self, flags: int):
        self.flags = flags
        self.has_assertion = False

    def seq(self, items: Any) -> Any:
        return _concat([self.node(op, av) for op, av in items])

    def cls(self, items: list[Any]) -> Any:
        neg = False
        parts = []
        for op, av in items:
            if op is sc.NEGATE:
                neg = True
            elif op is sc.LITERAL:
                parts.append(self.lit(av))
            elif op is sc.RANGE:
                parts.append(_range(av[0], av[1]))
            elif op is sc.CATEGORY:
                if av not in _CATS:
                    raise Unsupported(f"category {av}")
                if neg:
                    raise Unsupported("category inside negated class")
                parts.extend(_range(a, b) for a, b in _CATS[av])
            else:
                raise Unsupported(f"class item {op}")
        u = _union(parts)
        if neg:
            return z3.Intersect(_anychar(), z3.Complement(u))
        return u

    def lit(self, c: int) -> Any:
        if self.flags & re.IGNORECASE:
            ch = chr(c)
            alts = {ch.lower(), ch.upper(), ch}
            return _union([_ch(ord(x)) for x in sorted(alts) if len(x) == 1])
        return _ch(c)

    def node(self, op: Any, av: Any) -> Any:
        if op is sc.LITERAL:
            return self.lit(av)
        if op is sc.NOT_LITERAL:
            return z3.Intersect(_anychar(), z3.Complement(self.lit(av)))
        if op is sc.ANY:
            if self.flags & re.DOTALL:
                return _anychar()
            return z3.Intersect(_anychar(), z3.Complement(_ch(10)))
        if op is sc.IN:
            return self.cls(av)
        if op is sc.BRANCH:
            return _union([self.seq(b) for b in av[1]])
        if op is sc.SUBPATTERN:
            # (group, add_flags, del_flags, pattern)
            return self.seq(av[3])
        if op in (sc.MAX_REPEAT, sc.MIN_REPEAT, getattr(sc, "POSSESSIVE_REPEAT", None)):
            lo, hi, sub = av
            r = self.seq(sub)
            if hi is sc.MAXREPEAT:
                if lo == 0:
                    return z3.Star(r)
                if lo == 1:
                    return z3.Plus(r)
                return z3.Concat(z3.Loop(r, lo, lo), z3.Star(r))
            if lo == 0 and hi == 1:
                return z3.Option(r)
            return z3.Loop(r, lo, hi)
        if op is sc.AT:
            self.has_assertion = True
            return z3.Re(z3.StringVal(""))
        if op in (sc.ASSERT, sc.ASSERT_NOT):
            self.has_assertion = True
            return z3.Re(z3.StringVal(""))
        if op is getattr(sc, "ATOMIC_GROUP", None):
            return self.seq(av)
        raise Unsupported(f"op {op}")


def translate(pattern: str, flags: int = 0) -> Translated:
    tree = sre_parse.parse(pattern, flags)
    t = _T(flags | tree.state.flags)
    rx = t.seq(tree)
    return Translated(rx, t.has_assertion, pattern)


def sigma_star() -> Any:
    return z3.Full(z3.ReSort(z3.StringSort()))
