#!/bin/sh
# Builds /verif/.venv: overlay on /venv (repo + antlr4 + igraph + pygments) + crosshair-tool + z3-solver
# from the offline wheelhouse. Idempotent.
set -e
cd "$(dirname "$0")"
V=.venv
if [ -x "$V/bin/python" ] && "$V/bin/python" -c "import crosshair, z3, explorerscript, igraph, antlr4" 2>/dev/null; then
  exit 0
fi
rm -rf "$V"
/venv/bin/python -m venv "$V"
SP="$V/lib/python3.12/site-packages"
echo "import site; site.addsitedir('/venv/lib/python3.12/site-packages')" > "$SP/_overlay.pth"
PIP_NO_INDEX=1 "$V/bin/pip" install -q --no-index --find-links /opt/veriftools/wheels crosshair-tool z3-solver >/dev/null
"$V/bin/python" -c "import crosshair, z3, explorerscript, igraph, antlr4; print('venv ok', z3.get_version_string())"
