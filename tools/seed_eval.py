"""Evaluate a seeded change produced by a sub-agent.

usage: tools/seed_eval.py <PROP> <seed-name> <dir with patch.diff demo.py notes.txt> [extra check ids...]
 1. copies the artefacts to /verif/seeded/<seed-name>/
 2. confirms in a scratch worktree (outside /repo and /verif): patch applies, test suite passes with it, demo fails
    with it and passes without it
 3. applies the patch to /repo, runs ./check <PROP> (and extra ids) at the quick tier, records exit codes and
    VIOLATION lines, and undoes the patch straight afterwards
 4. writes meta.json
"""
import json
import os
import shutil
import tempfile
import subprocess
import sys
import time

ROOT = os.path.dirname(os.path.dirname(os.path.abspath(__file__)))


def sh(cmd, cwd=None, env=None, timeout=3600):
    p = subprocess.run(cmd, shell=True, cwd=cwd, env=env, capture_output=True, text=True, timeout=timeout)
    return p.returncode, p.stdout + p.stderr


def main():
    prop, name, src = sys.argv[1], sys.argv[2], sys.argv[3]
    checks = [prop] + sys.argv[4:]
    dst = os.path.join(ROOT, "seeded", name)
    os.makedirs(dst, exist_ok=True)
    for f in ("patch.diff", "demo.py", "notes.txt"):
        shutil.copy(os.path.join(src, f), os.path.join(dst, f))
    meta = {"seed": name, "property": prop, "notes": open(os.path.join(dst, "notes.txt")).read().strip()}
    wt = f"/tmp/seedcheck_{name}"
    sh(f"git -C /repo worktree remove --force {wt}")
    rc, out = sh(f"git -C /repo worktree add --detach {wt} HEAD")
    try:
        env = dict(os.environ, PYTHONPATH=wt)
        os.makedirs(os.path.join(wt, "_seed"), exist_ok=True)
        shutil.copy(os.path.join(dst, "demo.py"), os.path.join(wt, "_seed", "demo.py"))  # demos locate the tree via __file__
        rc0, o0 = sh("/venv/bin/python _seed/demo.py", cwd=wt, env=env)
        rca, oa = sh(f"git apply {dst}/patch.diff", cwd=wt)
        rct, ot = sh("/venv/bin/python -m pytest -q -p no:cacheprovider 2>&1 | tail -1", cwd=wt)
        rc1, o1 = sh("/venv/bin/python _seed/demo.py", cwd=wt, env=env)
        meta["confirmation"] = {"patch_applies": rca == 0, "tests_with_patch": ot.strip(),
                                "demo_exit_without_patch": rc0, "demo_exit_with_patch": rc1,
                                "demo_output_with_patch": o1[-600:]}
        meta["confirmed"] = rca == 0 and "111 passed" in ot and rc0 == 0 and rc1 != 0
    finally:
        sh(f"git -C /repo worktree remove --force {wt}")
    results = {}
    if meta["confirmed"]:
        rc, out = sh(f"git -C /repo apply {dst}/patch.diff")
        assert rc == 0, out
        # the runs on the patched tree rewrite evidence/<id>.json: keep the files of the unchanged tree aside
        keep = tempfile.mkdtemp(prefix="verif_evidence_")
        for cid in checks:
            src = os.path.join(ROOT, "evidence", cid + ".json")
            if os.path.exists(src):
                shutil.copy(src, keep)
        try:
            for cid in checks:
                t0 = time.time()
                rc, out = sh(f"./check {cid} --tier quick", cwd=ROOT, timeout=7200)
                viol = [l for l in out.splitlines() if l.startswith("VIOLATION")]
                nxt = [l.strip() for i, l in enumerate(out.splitlines()) if i > 0 and out.splitlines()[i - 1].startswith("VIOLATION")]
                herr = [l[:300] for l in out.splitlines() if l.startswith("HARNESS-ERROR")]
                results[cid] = {"exit": rc, "violations": len(viol), "first": (viol[:1] + nxt[:1]),
                                "harness_errors": herr[:2], "wall_s": round(time.time() - t0)}
        finally:
            sh("git -C /repo checkout -- .")
            rc, out = sh("git -C /repo status --short")
            assert out.strip() == "", out
            for cid in checks:
                src = os.path.join(keep, cid + ".json")
                if os.path.exists(src):
                    shutil.copy(src, os.path.join(ROOT, "evidence", cid + ".json"))
            shutil.rmtree(keep, ignore_errors=True)
        # remove the replays of the patched tree
        sh(f"rm -rf {ROOT}/replays")
    meta["checks_run"] = results
    meta["caught_by"] = [c for c, r in results.items() if r["exit"] == 1 and r["violations"] > 0]
    meta["what_i_ran"] = ("tools/seed_eval.py: scratch worktree (tests + demo with/without patch), then git -C /repo apply, "
                          "./check <id> --tier quick, git -C /repo checkout -- .")
    json.dump(meta, open(os.path.join(dst, "meta.json"), "w"), indent=1)
    print(json.dumps({k: meta[k] for k in ("seed", "confirmed", "caught_by", "checks_run")}, indent=1)[:1500])


if __name__ == "__main__":
    main()
