"""Regenerate MANIFEST.json from harness/registry.py (single source of truth)."""
import json, os, sys
ROOT = os.path.dirname(os.path.dirname(os.path.abspath(__file__)))
sys.path.insert(0, ROOT)
from harness.registry import PROPS, NOT_APPLICABLE

BASE = "cd /repo && /venv/bin/python -m pytest -ra -q -p no:cacheprovider --timeout=900 --continue-on-collection-errors"
checks = []
for pid in sorted(PROPS):
    s = PROPS[pid]
    checks.append({
        "property_id": pid,
        "quick_cmd": f"./check {pid} --tier quick",
        "thorough_cmd": f"./check {pid} --tier thorough",
        "evidence_file": f"/verif/evidence/{pid}.json",
        "replay_cmd_template": f"./check {pid} --replay {{path}}",
        "engine": s.get("engine", "engine-x"),
        "level_claimed": {"category": s.get("level", "other"), "text": s["level_text"], "design_ref": s.get("design_ref", f"DESIGN.md §2 {pid}")},
        "level_note": s["level_note"],
        "technique": s["technique"],
    })
m = {
    "version": 1,
    "setup_cmd": "./setup.sh",
    "hooks": {"guard": "TECH_TICKS_EXPLORERSCRIPT_VERIF", "enable": "n/a - no source hooks: harnesses import the unmodified modules from /repo and install stubs by attribute assignment inside the checking process only",
              "baseline_off_cmd": BASE, "source_commits": [], "add_only": True},
    "engines": [
        {"name": "engine-x", "path": "vlib/xrunner.py", "kind_free_text": "CrossHair 0.0.110 + z3: symbolic execution of the real Python functions, one process per condition / case slice, reach twins, native replay", "serves_properties": sorted(p for p in PROPS if PROPS[p].get("x"))},
        {"name": "engine-t", "path": "vlib/engine_t.py", "kind_free_text": "z3 bounded model checking of trace equivalence between two labelled transition systems with a completeness-threshold query", "serves_properties": sorted(p for p in PROPS if "engine-t" in PROPS[p].get("engines", []))},
        {"name": "engine-r", "path": "vlib/engine_r.py", "kind_free_text": "z3 regular-expression theory over the live Pygments token table", "serves_properties": sorted(p for p in PROPS if "engine-r" in PROPS[p].get("engines", []))},
    ],
    "checks": checks,
    "not_applicable": [{"property_id": k, "reason": v} for k, v in sorted(NOT_APPLICABLE.items())],
    "notes": "All checks are solver-based (CrossHair/z3 symbolic execution of the real code, z3 BMC, z3 regex theory). Exit 0 = held on everything explored (inconclusive obligations are counted in evidence, never reported as success of that obligation), 1 = VIOLATION (replayed natively first), 2 = harness error. Fix commits in /repo: see known_findings.json.",
}
json.dump(m, open(os.path.join(ROOT, "MANIFEST.json"), "w"), indent=1)
print("MANIFEST.json written:", len(checks), "checks,", len(m["not_applicable"]), "n/a")
