#!/bin/sh
# runs every check at the thorough tier, one after the other; prints exit code and wall time per property
for p in C17 C18 C16 C14 C11 C08 C05 C15 C10 C09 C07 C06 C03 C04 C02 C01; do
  s=$(date +%s)
  ./check $p --tier thorough > thorough_$p.log 2>&1
  rc=$?
  e=$(date +%s)
  echo "$p exit=$rc wall=$((e-s))s $(grep -c '^INCONCLUSIVE' thorough_$p.log) inconclusive $(grep -c '^VIOLATION' thorough_$p.log) violations $(grep -c '^HARNESS-ERROR' thorough_$p.log) harness-errors"
done
