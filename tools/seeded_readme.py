"""Generate seeded/README.md from seeded/*/meta.json"""
import glob, json, os
ROOT = os.path.dirname(os.path.dirname(os.path.abspath(__file__)))
rows = []
for f in sorted(glob.glob(os.path.join(ROOT, "seeded", "*", "meta.json"))):
    m = json.load(open(f))
    ran = ", ".join(f"{k}: exit {v['exit']}, {v['violations']} VIOLATION lines, {v['wall_s']} s" for k, v in m.get("checks_run", {}).items())
    first = ""
    for k in m.get("caught_by", []):
        fl = m["checks_run"][k].get("first") or []
        if len(fl) > 1:
            first = fl[1][:160]
            break
    needs = m["notes"].split("Needed to manifest:")[-1].split("\n")[0].strip()[:300] if "Needed to manifest" in m["notes"] else ""
    rows.append((m["seed"], m["property"], "yes" if m.get("confirmed") else "NO", ", ".join(m.get("caught_by", [])) or "—", ran, needs, first, m.get("history", "caught at first run")))
out = ["# Seeded changes", "",
       "Each directory holds `patch.diff` (applies to /repo HEAD), the sub-agent's `demo.py` (fails with the patch, passes "
       "without), its `notes.txt` and `meta.json` written by `tools/seed_eval.py` (confirmation in a scratch worktree: patch "
       "applies, 111 tests pass with it, demo exit codes; then the patch is applied to /repo, the quick checks listed are run, "
       "and /repo is restored).", "",
       "| seed | property | confirmed | caught by (exit 1 + VIOLATION) | checks run (final state) | needs to manifest | first report | history |",
       "|---|---|---|---|---|---|---|---|"]
for r in rows:
    out.append("| " + " | ".join(x.replace("|", "\\|").replace("\n", " ") for x in r) + " |")
open(os.path.join(ROOT, "seeded", "README.md"), "w").write("\n".join(out) + "\n")
print("\n".join(out[-len(rows):]))
