"""Predicates that identify the failing inputs of recorded findings (known_findings.json).

Each predicate takes the harness arguments. They are written so that CrossHair can evaluate them on symbolic
values (plain comparisons / `in` tests), because the negation of every *known* predicate is part of the `pre:` of the
main obligation and the predicate itself is the `pre:` of the known-only obligation.
"""
from __future__ import annotations

import json
import os
from typing import Any

_ROOT = os.path.dirname(os.path.dirname(os.path.abspath(__file__)))
_MODE = os.environ.get("VERIF_KNOWN_MODE", "exclude")


def _load() -> list[dict[str, Any]]:
    p = os.path.join(_ROOT, "known_findings.json")
    if not os.path.exists(p):
        return []
    with open(p) as fh:
        return json.load(fh)["findings"]


KNOWN = _load()


def load_known(prop: str | None = None) -> list[dict[str, Any]]:
    return [k for k in KNOWN if prop is None or k["property"] == prop]


def admit(ob_id: str, *args: Any) -> bool:
    """Precondition helper used inside harness `pre:` lines.

    mode exclude  -> True iff no *known* predicate listed for this obligation holds on args
    mode only:<id>-> True iff that predicate holds on args
    mode off      -> True
    """
    if _MODE == "off":
        return True
    if _MODE.startswith("only:"):
        kid = _MODE[5:]
        for k in KNOWN:
            if k["id"] == kid:
                return bool(globals()[k["predicate"]](*args))
        return False
    for k in KNOWN:
        if k.get("status") == "known" and ob_id in k.get("obligations", []):
            if globals()[k["predicate"]](*args):
                return False
    return True


def evaluate(pred: str, args: list, kwargs: dict, case: Any) -> bool:
    return bool(globals()[pred](*args, **kwargs))


# ---- predicates ------------------------------------------------------------------------------------------
