"""Predicates that identify the failing inputs of recorded findings (known_findings.json).

Each predicate takes the harness arguments. They are written so that CrossHair can evaluate them on symbolic
values (plain comparisons / `in` tests), because the negation of every *known* predicate is part of the `pre:` of the
main obligation and the predicate itself is the `pre:` of the known-only obligation.
"""
from __future__ import annotations

import json
import os
from typing import Any

_ROOT = os.path.dirname(os.path.dirname(os.path.abspath(__file__)))
_MODE = os.environ.get("VERIF_KNOWN_MODE", "exclude")


def _load() -> list[dict[str, Any]]:
    p = os.path.join(_ROOT, "known_findings.json")
    if not os.path.exists(p):
        return []
    with open(p) as fh:
        return json.load(fh)["findings"]


KNOWN = _load()


def load_known(prop: str | None = None) -> list[dict[str, Any]]:
    return [k for k in KNOWN if prop is None or k["property"] == prop or prop in k.get("also", [])]


def admit(ob_id: str, *args: Any) -> bool:
    """Precondition helper used inside harness `pre:` lines.

    mode exclude  -> True iff no *known* predicate listed for this obligation holds on args
    mode only:<id>-> True iff that predicate holds on args
    mode off      -> True
    """
    if _MODE == "off":
        return True
    if _MODE.startswith("only:"):
        kid = _MODE[5:]
        for k in KNOWN:
            if k["id"] == kid:
                return bool(globals()[k["predicate"]](*args))
        return False
    for k in KNOWN:
        if k.get("status") == "known" and ob_id in k.get("obligations", []):
            if globals()[k["predicate"]](*args):
                return False
    return True


def evaluate(pred: str, args: list, kwargs: dict, case: Any) -> bool:
    return bool(globals()[pred](*args, **kwargs))


# ---- predicates ------------------------------------------------------------------------------------------
_BS = chr(92)
_SEPS = "\r\x0b\x0c\x1c\x1d\x1e\x85  "


def single_backslash_hazard(s: str, indent: int = 0, pq: bool = False) -> bool:
    """a backslash that is last, or is followed by a quote character or by 'n' (single-line printer/reader)"""
    n = len(s)
    for i in range(n):
        if s[i] == _BS:
            if i == n - 1:
                return True
            c = s[i + 1]
            if c == "'" or c == '"' or c == "n":
                return True
    return False


def single_cr_ff(s: str, indent: int = 0, pq: bool = False) -> bool:
    """carriage return or form feed in a string without newline: printed raw, excluded by the STRING_LITERAL rule"""
    return "\r" in s or "\f" in s


def multi_all_lines_indented(s: str, indent: int = 0, pq: bool = False) -> bool:
    """every line of a multi-line string starts with a blank: the reader's dedent removes the common blanks"""
    for line in s.split("\n"):
        if not line.startswith(" "):
            return False
    return True


def multi_blank_last_line_indent0(s: str, indent: int = 0, pq: bool = False) -> bool:
    """multi-line string whose last line is empty or blanks only, printed at indent 0: the closing delimiter line is
    empty, str.splitlines drops it, and the reader takes the last content line for the delimiter line"""
    last = s.split("\n")[-1]
    for c in last:
        if c != " ":
            return False
    return indent == 0


def multi_splitlines_seps(s: str, indent: int = 0, pq: bool = False) -> bool:
    """a str.splitlines() separator other than LF inside a multi-line string (printer splits on LF only)"""
    for c in s:
        if c in _SEPS:
            return True
    return False


def posmark_name_unescaped(name: str, xr: int = 0, yr: int = 0, xo: int = 0, yo: int = 0) -> bool:
    """position-mark name containing a quote, backslash, CR, LF or FF: __str__ prints it raw between single quotes"""
    for c in name:
        if c == "'" or c == _BS or c == "\n" or c == "\r" or c == "\f":
            return True
    return False


def posmark_offset_4(name: str = "", xr: int = 0, yr: int = 0, xo: int = 0, yo: int = 0) -> bool:
    """half-tile offset stored as 4 (documented alternative to 2) is printed as .5 and read back as 2"""
    return xo == 4 or yo == 4


def reader_blank_line_before_closing_delimiter(body: str, dq: bool = False) -> bool:
    """literal body ending in LF (closing delimiter at column 0) whose preceding line is empty or blanks only and is
    not the first line: str.splitlines drops the final empty element, so the reader takes that blank line for the
    delimiter line and removes it, where the specification keeps it"""
    if not body.endswith("\n"):
        return False
    lines = body.split("\n")
    if len(lines) < 3:
        return False
    prev = lines[-2]
    for c in prev:
        if c != " ":
            return False
    return True
