"""Reader: real ANTLR parse tree of an ExplorerScript text -> es_ast program dict.

Used to interpret decompiler output "according to the language specification" (spec/es_sem.py) without going
through the compiler's handlers. Literal values are read with small independent functions (not the compiler's)."""
from __future__ import annotations

from typing import Any


class ReadError(Exception):
    pass


def _int(text: str) -> int:
    return int(text, 0)


def _unquote(tok: str) -> str:
    if tok[:3] in ("'''", '"""'):
        body = tok[3:-3]
        lines = body.split("\n")
        if len(lines) == 1:
            return lines[0]
        first, last, rest = lines[0], lines[-1], lines[1:-1]
        if last.strip(" ") != "":
            rest = rest + [last]
        m = min((len(x) - len(x.lstrip(" ")) for x in rest), default=0)
        rest = [x[m:] for x in rest]
        return "\n".join(([first] if first != "" else []) + rest)
    body = tok[1:-1]
    return body.replace('\\"', '"').replace("\\'", "'").replace("\\n", "\n")


def integer_like(ctx: Any) -> Any:
    if ctx.INTEGER():
        return _int(str(ctx.INTEGER()))
    if ctx.DECIMAL():
        return ("dec", str(ctx.DECIMAL()))
    if ctx.IDENTIFIER():
        return ("const", str(ctx.IDENTIFIER()))
    if ctx.VARIABLE():
        return ("const", str(ctx.VARIABLE()))
    raise ReadError("integer_like")


def string_value(ctx: Any) -> str:
    t = ctx.STRING_LITERAL() or ctx.MULTILINE_STRING_LITERAL()
    return _unquote(str(t))


def string(ctx: Any) -> Any:
    if ctx.string_value():
        return ("str", string_value(ctx.string_value()))
    ls = ctx.lang_string()
    return ("lstr", {str(a.IDENTIFIER()): string_value(a.string_value()) for a in ls.lang_string_argument()})


def pos_argument(ctx: Any) -> Any:
    if ctx.integer_like():
        return integer_like(ctx.integer_like())
    if ctx.string():
        return string(ctx.string())
    pm = ctx.position_marker()
    args = pm.position_marker_arg()
    return ("pos", _unquote(str(pm.STRING_LITERAL())), args[0].getText(), args[1].getText())


def arglist(ctx: Any) -> list[Any]:
    if ctx is None:
        return []
    return [pos_argument(a) for a in ctx.pos_argument()]


def operation(ctx: Any) -> tuple:
    c = None
    if ctx.inline_ctx() is not None:
        h = ctx.inline_ctx().ctx_header()
        c = (str(h.IDENTIFIER()), integer_like(h.integer_like()))
    return ("op", str(ctx.IDENTIFIER()), arglist(ctx.arglist()), c)


def cond_op(ctx: Any) -> str:
    return ctx.getText()


def value_or_int(parent: Any, idx_after_first: int = 1) -> tuple[Any, bool]:
    if parent.value_of():
        return integer_like(parent.value_of().integer_like()), True
    ils = parent.integer_like()
    il = ils[idx_after_first] if isinstance(ils, list) else ils
    return integer_like(il), False


def if_header(ctx: Any) -> tuple:
    if ctx.if_h_op():
        h = ctx.if_h_op()
        val, isvar = value_or_int(h, 1)
        return ("c_op", integer_like(h.integer_like(0)), cond_op(h.conditional_operator()), val, isvar)
    if ctx.if_h_bit():
        h = ctx.if_h_bit()
        return ("c_bit", h.NOT() is not None, integer_like(h.integer_like()), _int(str(h.INTEGER())))
    if ctx.if_h_negatable():
        h = ctx.if_h_negatable()
        kw = "debug" if h.DEBUG() else ("edit" if h.EDIT() else "variation")
        return ("c_neg", h.NOT() is not None, kw)
    if ctx.if_h_scn():
        h = ctx.if_h_scn()
        return ("c_scn", integer_like(h.scn_var().integer_like()), cond_op(h.conditional_operator()),
                _int(str(h.INTEGER(0))), _int(str(h.INTEGER(1))))
    return ("c_operation", operation(ctx.operation()))


def assignment(ctx: Any) -> tuple:
    if ctx.assignment_regular():
        a = ctx.assignment_regular()
        idx = _int(str(a.INTEGER())) if a.INTEGER() else None
        val, isvar = value_or_int(a, 1)
        return ("assign", integer_like(a.integer_like(0)), idx, a.assign_operator().getText(), val, isvar)
    if ctx.assignment_clear():
        return ("clear", integer_like(ctx.assignment_clear().integer_like()))
    if ctx.assignment_initial():
        return ("init", integer_like(ctx.assignment_initial().integer_like()))
    if ctx.assignment_reset():
        a = ctx.assignment_reset()
        return ("reset", None if a.DUNGEON_RESULT() else integer_like(a.scn_var().integer_like()))
    if ctx.assignment_adv_log():
        return ("advlog", integer_like(ctx.assignment_adv_log().integer_like()))
    if ctx.assignment_dungeon_mode():
        a = ctx.assignment_dungeon_mode()
        return ("dmode", integer_like(a.integer_like(0)), integer_like(a.integer_like(1)))
    a = ctx.assignment_scn()
    return ("setscn", integer_like(a.integer_like()), _int(str(a.INTEGER(0))), _int(str(a.INTEGER(1))))


def simple_stmt(ctx: Any) -> tuple:
    if ctx.operation():
        return operation(ctx.operation())
    if ctx.label():
        return ("label", str(ctx.label().IDENTIFIER()))
    if ctx.cntrl_stmt():
        return ("ctrl", ctx.cntrl_stmt().getText())
    if ctx.jump():
        return ("jump", str(ctx.jump().IDENTIFIER()))
    if ctx.call():
        return ("call", str(ctx.call().IDENTIFIER()))
    return assignment(ctx.assignment())


def switch_header(ctx: Any) -> tuple:
    if ctx.integer_like():
        return ("h_var", integer_like(ctx.integer_like()))
    if ctx.operation():
        return ("h_op", operation(ctx.operation()))
    if ctx.switch_h_scn():
        h = ctx.switch_h_scn()
        return ("h_scn", integer_like(h.scn_var().integer_like()), _int(str(h.INTEGER())))
    if ctx.switch_h_random():
        return ("h_random", integer_like(ctx.switch_h_random().integer_like()))
    if ctx.switch_h_dungeon_mode():
        return ("h_dmode", integer_like(ctx.switch_h_dungeon_mode().integer_like()))
    return ("h_sector",)


def case_header(ctx: Any) -> tuple:
    if ctx.integer_like():
        return ("k_val", integer_like(ctx.integer_like()))
    if ctx.case_h_menu():
        return ("k_menu", string(ctx.case_h_menu().string()))
    if ctx.case_h_menu2():
        return ("k_menu2", integer_like(ctx.case_h_menu2().integer_like()))
    h = ctx.case_h_op()
    if h.value_of():
        return ("k_op", cond_op(h.conditional_operator()), integer_like(h.value_of().integer_like()), True)
    return ("k_op", cond_op(h.conditional_operator()), integer_like(h.integer_like()), False)


def _cases(children: list[Any], message: bool) -> list[tuple]:
    out = []
    for c in children:
        name = type(c).__name__
        if name == "Single_case_blockContext":
            hdr: Any = case_header(c.case_header())
        elif name == "DefaultContext":
            hdr = None
        else:
            continue
        if message:
            if c.string() is None:
                raise ReadError("message switch case without string")
            val = None if hdr is None else hdr[1]
            out.append((val, string(c.string())))
        else:
            if c.string() is not None:
                raise ReadError("switch case with a string body")
            out.append((hdr, [stmt(s) for s in c.stmt()]))
    return out


def stmt(ctx: Any) -> tuple:
    if ctx.simple_stmt():
        return simple_stmt(ctx.simple_stmt())
    if ctx.ctx_block():
        b = ctx.ctx_block()
        h = b.ctx_header()
        return ("with", str(h.IDENTIFIER()), integer_like(h.integer_like()), simple_stmt(b.simple_stmt()))
    if ctx.if_block():
        b = ctx.if_block()
        elifs = [(e.NOT() is not None, [if_header(h) for h in e.if_header()], [stmt(s) for s in e.stmt()])
                 for e in b.elseif_block()]
        els = [stmt(s) for s in b.else_block().stmt()] if b.else_block() else None
        return ("if", b.NOT() is not None, [if_header(h) for h in b.if_header()], [stmt(s) for s in b.stmt()], elifs, els)
    if ctx.switch_block():
        b = ctx.switch_block()
        return ("switch", switch_header(b.switch_header()), _cases(list(b.getChildren()), False))
    if ctx.message_switch_block():
        b = ctx.message_switch_block()
        kind = "message_SwitchTalk" if b.MESSAGE_SWITCH_TALK() else "message_SwitchMonologue"
        return ("msgswitch", kind, integer_like(b.integer_like()), _cases(list(b.getChildren()), True))
    if ctx.forever_block():
        return ("forever", [stmt(s) for s in ctx.forever_block().stmt()])
    if ctx.for_block():
        b = ctx.for_block()
        return ("for", simple_stmt(b.simple_stmt(0)), if_header(b.if_header()), simple_stmt(b.simple_stmt(1)),
                [stmt(s) for s in b.stmt()])
    if ctx.while_block():
        b = ctx.while_block()
        return ("while", b.NOT() is not None, if_header(b.if_header()), [stmt(s) for s in b.stmt()])
    mc = ctx.macro_call()
    return ("macrocall", str(mc.MACRO_CALL())[1:], arglist(mc.arglist()))


def _suite(fs: Any) -> Any:
    if fs.func_alias():
        return "alias"
    return [stmt(s) for s in fs.stmt()]


def program(tree: Any) -> dict[str, Any]:
    p: dict[str, Any] = {"imports": [_unquote(str(i.STRING_LITERAL())) for i in tree.import_stmt()], "macros": [], "routines": []}
    for m in tree.macrodef():
        p["macros"].append(("macro", str(m.IDENTIFIER()), [str(v) for v in m.VARIABLE()], _suite(m.func_suite())))
    for f in tree.funcdef():
        if f.simple_def():
            d = f.simple_def()
            p["routines"].append(("def", _int(str(d.INTEGER())), _suite(d.func_suite())))
        elif f.coro_def():
            d = f.coro_def()
            p["routines"].append(("coro", str(d.IDENTIFIER()), _suite(d.func_suite())))
        else:
            d = f.for_target_def()
            t = d.for_target_def_target()
            kind = str(t.IDENTIFIER()) if t.IDENTIFIER() else str(t.FOR_TARGET())[4:]
            p["routines"].append(("for", _int(str(d.INTEGER())), kind, integer_like(d.integer_like()), _suite(d.func_suite()),
                                  t.FOR_TARGET() is not None))
    return p


def read(text: str) -> dict[str, Any]:
    from explorerscript.explorerscript_reader import ExplorerScriptReader

    return program(ExplorerScriptReader(text).read())
