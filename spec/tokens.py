"""Token-class predicates mirroring the lexer rules of SsbCommon.g4 as plain character loops (CrossHair cannot decide
`re` over symbolic strings). They stand in for the ANTLR lexer inside the C04 harnesses and are differential-tested
against the real ExplorerScriptLexer on every run (spec/tokens_validate.py)."""
from __future__ import annotations


def is_string_literal(t: str) -> bool:
    """STRING_LITERAL: q ( '\\' . | ~[\\\r\n\f q] )* q   with q in {', "} — exactly the whole of t"""
    n = len(t)
    if n < 2:
        return False
    q = t[0]
    if q != "'" and q != '"':
        return False
    i = 1
    while i < n:
        c = t[i]
        if c == "\\":
            if i + 1 >= n:
                return False
            i += 2
            continue
        if c == q:
            return i == n - 1
        if c == "\r" or c == "\n" or c == "\f":
            return False
        i += 1
    return False


def is_multiline_string_literal(t: str) -> bool:
    """MULTILINE_STRING_LITERAL: d .*? d with d in {''' , \"\"\"} — the first d after the opening one ends t"""
    n = len(t)
    if n < 6:
        return False
    d = t[:3]
    if d != "'''" and d != '"""':
        return False
    j = t.find(d, 3)
    return j >= 0 and j == n - 3


def _is_digits(s: str, lo: int = 0) -> bool:
    if len(s) <= lo:
        return False
    for c in s[lo:]:
        if not ("0" <= c <= "9"):
            return False
    return True


def is_decimal(t: str) -> bool:
    """DECIMAL: '-'? DIGIT+ '.' DIGIT+ | '-'? '.' DIGIT+"""
    if t.startswith("-"):
        t = t[1:]
    k = t.find(".")
    if k < 0:
        return False
    a, b = t[:k], t[k + 1:]
    if a != "" and not _is_digits(a):
        return False
    return _is_digits(b)


def is_integer(t: str) -> bool:
    """INTEGER: decimal ('-'? [1-9][0-9]* | '-'? '0'+), 0o.., 0x.., 0b.."""
    if t.startswith("-"):
        t = t[1:]
    if t == "":
        return False
    if len(t) > 2 and t[0] == "0" and t[1] in "oOxXbB":
        body = t[2:]
        if t[1] in "oO":
            return all(c in "01234567" for c in body)
        if t[1] in "xX":
            return all(c in "0123456789abcdefABCDEF" for c in body)
        return all(c in "01" for c in body)
    if not _is_digits(t):
        return False
    if t[0] == "0":
        return all(c == "0" for c in t)
    return True
