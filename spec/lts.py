"""Labelled transition systems shared by the reference semantics (es_sem) and the SSB machine (ssb_machine)."""
from __future__ import annotations

from typing import Any

ACT, TEST, STOP, SILENT, DIVERGE = "ACT", "TEST", "STOP", "SILENT", "DIVERGE"


class Lts:
    """nodes: list of [kind, label, nxt, taken]; label = (name, params_tuple) for ACT/TEST"""

    def __init__(self) -> None:
        self.nodes: list[list[Any]] = []
        self.entry: int = -1

    def new(self, kind: str, label: Any = None, nxt: int | None = None, taken: int | None = None) -> int:
        self.nodes.append([kind, label, nxt, taken])
        return len(self.nodes) - 1

    def set_next(self, n: int, nxt: int) -> None:
        self.nodes[n][2] = nxt

    def visible(self) -> "VisibleLts":
        """collapse SILENT chains; silent cycles become a DIVERGE state"""
        n = len(self.nodes)
        res: dict[int, int] = {}
        v = VisibleLts()
        stop = v.add(STOP, (STOP,))
        div = v.add(DIVERGE, (DIVERGE,))
        v.nxt[stop] = stop
        v.taken[stop] = stop
        v.nxt[div] = div
        v.taken[div] = div
        ids: dict[int, int] = {}

        def resolve(i: int) -> int:
            """first non-silent node reachable from i, or -1 for a silent cycle"""
            seen = set()
            while self.nodes[i][0] == SILENT:
                if i in seen:
                    return -1
                seen.add(i)
                nx = self.nodes[i][2]
                assert nx is not None, f"dangling silent node {i}"
                i = nx
            return i

        def vid(i: int) -> int:
            r = resolve(i)
            if r == -1:
                return div
            if self.nodes[r][0] == STOP:
                return stop
            if r not in ids:
                k, lab = self.nodes[r][0], self.nodes[r][1]
                ids[r] = v.add(k, (k,) + tuple(lab))
                todo.append(r)
            return ids[r]

        todo: list[int] = []
        v.entry = vid(self.entry)
        while todo:
            r = todo.pop()
            me = ids[r]
            k, _lab, nx, tk = self.nodes[r]
            assert nx is not None, f"node {r} {self.nodes[r]} has no successor"
            v.nxt[me] = vid(nx)
            v.taken[me] = vid(tk) if k == TEST else v.nxt[me]
        return v


class VisibleLts:
    def __init__(self) -> None:
        self.kind: list[str] = []
        self.label: list[Any] = []
        self.nxt: list[int] = []
        self.taken: list[int] = []
        self.entry = 0

    def add(self, kind: str, label: Any) -> int:
        self.kind.append(kind)
        self.label.append(label)
        self.nxt.append(-1)
        self.taken.append(-1)
        return len(self.kind) - 1

    def __len__(self) -> int:
        return len(self.kind)

    def run(self, outcomes: list[bool], steps: int) -> list[Any]:
        """concrete interpreter: labels visited for the given test outcomes (t-th step uses outcomes[t])"""
        s = self.entry
        out = []
        for t in range(steps):
            out.append(self.label[s])
            if self.kind[s] == TEST and t < len(outcomes) and outcomes[t]:
                s = self.taken[s]
            else:
                s = self.nxt[s]
        return out

    def dump(self) -> list[str]:
        return [f"{i}{'*' if i == self.entry else ''}: {self.label[i]} -> {self.nxt[i]}"
                + (f" / taken {self.taken[i]}" if self.kind[i] == TEST else "") for i in range(len(self))]
