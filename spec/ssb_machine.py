"""The SSB machine model of the C01 statement as an LTS over real op lists (routine_ops as the compiler returns
them or as a binary reader delivers them)."""
from __future__ import annotations

from typing import Any

from spec.lts import Lts, ACT, TEST, STOP, SILENT

JUMP_OPS = {"Case": 1, "CaseMenu": 1, "CaseMenu2": 1, "CaseScenario": 2, "CaseValue": 2, "CaseVariable": 2, "Jump": 0,
            "Call": 0, "Branch": 2, "BranchBit": 2, "BranchDebug": 1, "BranchEdit": 1, "BranchExecuteSub": 1,
            "BranchPerformance": 2, "BranchScenarioNow": 3, "BranchScenarioNowAfter": 3, "BranchScenarioNowBefore": 3,
            "BranchScenarioAfter": 3, "BranchScenarioBefore": 3, "BranchSum": 3, "BranchValue": 3,
            "BranchVariable": 3, "BranchVariation": 1}
FLOW_END = {"Return", "End", "Hold", "Destroy", "JumpCommon"}
CTX = {"lives", "object", "performer"}


class MachineError(Exception):
    pass


def norm_param(p: Any, dungeon_modes: dict[str, int] | None = None) -> Any:
    cls = type(p).__name__
    if isinstance(p, bool):
        raise MachineError("bool parameter")
    if isinstance(p, int):
        return p
    if cls == "SsbOpParamConstant":
        return ("const", p.name)
    if cls == "SsbOpParamConstString":
        return ("str", p.name)
    if cls == "SsbOpParamLanguageString":
        return ("lstr", tuple(sorted(p.strings.items())))
    if cls == "SsbOpParamFixedPoint":
        return ("dec", p.value)
    if cls == "SsbOpParamPositionMarker":
        return ("pos", p.name, p.x_offset, p.y_offset, p.x_relative, p.y_relative)
    raise MachineError(f"unknown parameter type {cls}")


def ops_lts(routine_ops: list[list[Any]]) -> tuple[Lts, list[int | None]]:
    """one graph for the whole routine set (jumps resolve across routines by offset)"""
    g = Lts()
    node_of: dict[int, int] = {}
    # first pass: one placeholder per op
    for ops in routine_ops:
        for op in ops:
            if op.offset in node_of:
                raise MachineError(f"duplicate offset {op.offset}")
            node_of[op.offset] = g.new(SILENT, ("op", op.offset), None)
    entries: list[int | None] = []
    for ops in routine_ops:
        if not ops:
            entries.append(None)
            continue
        stop = g.new(STOP, None, None)
        g.set_next(stop, stop)
        fall_off = g.new(ACT, ("Return", ()), stop)
        for i, op in enumerate(ops):
            me = node_of[op.offset]
            nxt = node_of[ops[i + 1].offset] if i + 1 < len(ops) else fall_off
            name = op.op_code.name
            prev_ctx = i > 0 and ops[i - 1].op_code.name in CTX
            if name in JUMP_OPS:
                if len(op.params) < 1 or not isinstance(op.params[-1], int) or isinstance(op.params[-1], bool):
                    raise MachineError(f"op {name}@{op.offset} has no jump target parameter")
                tgt = op.params[-1]
                if tgt not in node_of:
                    raise MachineError(f"op {name}@{op.offset} jumps to {tgt}, which is not an op of the set")
                rest = tuple(norm_param(p) for p in list(op.params)[:-1])
                if name == "Jump":
                    real = g.new(SILENT, ("Jump", op.offset), node_of[tgt])
                else:
                    real = g.new(TEST, (name, rest), nxt, node_of[tgt])
            elif name in FLOW_END and not prev_ctx:
                real = g.new(ACT, (name, tuple(norm_param(p) for p in op.params)), stop)
            else:
                real = g.new(ACT, (name, tuple(norm_param(p) for p in op.params)), nxt)
            g.set_next(me, real)
        entries.append(node_of[ops[0].offset])
    return g, entries


def infos(routine_infos: list[Any], named_coroutines: list[Any]) -> list[Any]:
    out = []
    for i, info in enumerate(routine_infos):
        if info is None:
            out.append(None)
            continue
        kind = info.type.name
        if info.linked_to_name is not None:
            target: Any = ("const", info.linked_to_name)
        else:
            target = info.linked_to
        name = named_coroutines[i] if i < len(named_coroutines) and isinstance(named_coroutines[i], str) else None
        out.append((i, kind, target if kind in ("ACTOR", "OBJECT", "PERFORMER") else 0, name))
    return out
