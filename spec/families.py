"""Input families for Engine T (the enumerated dimension). Deterministic; the random part is seeded."""
from __future__ import annotations

import itertools
import random
from typing import Any, Iterator

C = lambda n: ("const", n)  # noqa: E731


def op(name: str, *args: Any, ctx: Any = None) -> tuple:
    return ("op", name, list(args), ctx)


class Fresh:
    def __init__(self) -> None:
        self.n = 0

    def label(self) -> str:
        self.n += 1
        return f"g{self.n}"

    def opname(self) -> str:
        self.n += 1
        return f"op{self.n}"


# ---- pools ------------------------------------------------------------------------------------------------
CONDS = [
    ("c_neg", False, "debug"), ("c_neg", True, "edit"), ("c_neg", False, "variation"),
    ("c_op", C("$A"), "==", 3, False), ("c_op", C("$A"), "<", C("K"), False), ("c_op", 4, ">=", C("$B"), True),
    ("c_op", C("$A"), "&<<", 2, False), ("c_op", C("$A"), "!=", 7, True),
    ("c_bit", False, C("$BITS"), 2), ("c_bit", True, C("$PERFORMANCE_PROGRESS_LIST"), 1),
    ("c_bit", False, C("$PERFORMANCE_PROGRESS_LIST"), 0),
    ("c_scn", C("$S"), "==", 1, 2), ("c_scn", C("$S"), "<", 3, 0), ("c_scn", C("$S"), ">=", 5, 1),
    ("c_scn", C("$S"), ">", 2, 2), ("c_scn", C("$S"), "<=", 9, 9),
    ("c_operation", op("BranchSum", C("$A"), 2, 3)), ("c_operation", op("BranchExecuteSub", 7)),
]
COND_OPERATORS = ["FALSE", "TRUE", "==", ">", "<", ">=", "<=", "!=", "&", "^", "&<<"]
ASSIGN_OPERATORS = ["=", "-=", "+=", "*=", "/="]
SWITCH_HEADERS = [
    ("h_var", C("$V")), ("h_var", 12), ("h_op", op("message_Menu", 3)), ("h_op", op("ProcessSpecial", 1, 2, 3)),
    ("h_scn", C("$S"), 0), ("h_scn", C("$S"), 1), ("h_random", 5), ("h_dmode", C("D_X")), ("h_sector",),
]
CASE_HEADERS = [
    ("k_val", 1), ("k_val", C("K2")), ("k_op", ">", 9, False), ("k_op", "==", 12, False), ("k_op", "FALSE", 3, False),
    ("k_op", "<", C("$W"), True), ("k_menu", ("str", "Yes")), ("k_menu", ("lstr", {"english": "Y", "german": "J"})),
    ("k_menu2", 3),
]
SIMPLE_ACTIONS = [
    op("foo", 1, C("X")), op("say", ("str", "hi")), op("bar", ctx=("actor", C("ACTOR_A"))),
    op("baz", 2, ctx=("object", 4)), op("qux", ctx=("performer", 1)),
    ("assign", C("$V"), None, "=", 3, False), ("assign", C("$V"), None, "+=", 2, False),
    ("assign", C("$V"), None, "-=", C("$W"), True), ("assign", C("$V"), None, "=", C("$W"), True),
    ("assign", C("$V"), 3, "=", 1, False), ("assign", C("$PERFORMANCE_PROGRESS_LIST"), 2, "=", 0, False),
    ("clear", C("$V")), ("init", C("$V")), ("reset", None), ("reset", C("$S")), ("advlog", 4),
    ("dmode", C("D_X"), C("DMODE_OPEN")), ("dmode", 3, 1), ("setscn", C("$S"), 1, 2),
    op("pos", ("pos", "m", "3", "4.5")), op("dec", ("dec", "1.50"), ("dec", "-.5")),
    ("with", "actor", C("ACTOR_B"), op("inwith", 1)), ("with", "object", 2, ("assign", C("$V"), None, "=", 1, False)),
    ("with", "performer", 0, ("ctrl", "hold")), ("with", "actor", 1, ("ctrl", "end")),
    ("msgswitch", "message_SwitchTalk", C("$T"), [(1, ("str", "a")), (2, ("lstr", {"english": "b"})), (None, ("str", "d"))]),
    ("msgswitch", "message_SwitchMonologue", 3, [(None, ("str", "only")), (7, ("str", "x"))]),
]


def bodies(fr: Fresh, fwd: str, back: str, in_case: bool, in_loop: bool) -> list[list[tuple]]:
    """the body pool B of DESIGN §1.5"""
    a, b = fr.opname(), fr.opname()
    lab = fr.label()
    out: list[list[tuple]] = [
        [], [op(a)], [("jump", fwd)], [("jump", back)], [("ctrl", "return")], [("ctrl", "end")], [("ctrl", "hold")],
        [op(a), op(b)], [op(a), ("ctrl", "return")], [("with", "actor", C("ACTOR_X"), op(a))],
        [("label", lab), op(a)], [op(a), ("jump", fwd)], [("call", fwd), op(a)],
        [("with", "actor", 2, ("jump", fwd))], [("with", "object", 2, ("ctrl", "return"))], [("call", fwd)],
    ]
    if in_case:
        out += [[("ctrl", "break")], [op(a), ("ctrl", "break")]]
    if in_loop:
        out += [[("ctrl", "continue")], [("ctrl", "break_loop")], [op(a), ("ctrl", "break_loop")], [op(a), ("ctrl", "continue")]]
    return out


def wrap(stmts: list[tuple], fwd: str, back: str, position: str) -> dict[str, Any]:
    """put a construct into a routine: first / middle / last statement"""
    pre = [("label", back), op("pre")]
    post = [op("post"), ("label", fwd), op("fin"), ("ctrl", "end")]
    if position == "last":
        # construct is the very last statement; labels must still exist
        body = [("jump", "start"), ("label", fwd), op("fin"), ("ctrl", "end"), ("label", "start")] + pre + stmts
    elif position == "first":
        body = [("label", back)] + stmts + post
    else:
        body = pre + stmts + post
    return {"routines": [("def", 0, body)]}


# ---- F1: constructs -------------------------------------------------------------------------------------------
def f1_constructs(tier: str) -> Iterator[tuple[str, dict[str, Any]]]:
    fr = Fresh()
    fwd, back = "lf", "lb"
    positions = ["middle", "first", "last"]
    # plain statements, each alone and in sequence
    for i, s in enumerate(SIMPLE_ACTIONS):
        yield f"F1.simple.{i}", wrap([s], fwd, back, "middle")
    yield "F1.simple.all", wrap(list(SIMPLE_ACTIONS), fwd, back, "middle")
    # no-terminator routines
    yield "F1.noterm.op", {"routines": [("def", 0, [op("a")])]}
    yield "F1.noterm.label", {"routines": [("def", 0, [op("a"), ("label", "e")])]}
    yield "F1.noterm.jumpend", {"routines": [("def", 0, [("jump", "e"), op("a"), ("label", "e")])]}
    yield "F1.noterm.if", {"routines": [("def", 0, [("if", False, [CONDS[0]], [op("a")], [], None)])]}
    # if-blocks
    B = bodies(fr, fwd, back, False, False)
    nb = len(B)
    for pos in positions:
        for neg in (False, True):
            for nh in (1, 2):
                conds = [CONDS[(3 * nh + k) % len(CONDS)] for k in range(nh)]
                for bi in range(nb):
                    yield f"F1.if.{pos}.{neg}.{nh}.b{bi}", wrap([("if", neg, conds, B[bi], [], None)], fwd, back, pos)
                    if pos == "middle":
                        yield (f"F1.ifelse.{neg}.{nh}.b{bi}",
                               wrap([("if", neg, conds, [op("t")], [], B[bi])], fwd, back, pos))
                        yield (f"F1.ifelse2.{neg}.{nh}.b{bi}",
                               wrap([("if", neg, conds, B[bi], [], [op("e")])], fwd, back, pos))
    for ci, c in enumerate(CONDS):
        for neg in (False, True):
            yield f"F1.ifcond.{ci}.{neg}", wrap([("if", neg, [c], [op("t")], [], [op("e")])], fwd, back, "middle")
    # atoms: every conditional / assignment operator in every header form that takes one, value and value(var)
    for oi, o in enumerate(COND_OPERATORS):
        for vi, (val, isvar) in enumerate(((5, False), (C("K"), False), (C("$W"), True), (0, True))):
            yield (f"F1.atom.ifop.{oi}.{vi}",
                   wrap([("if", vi % 2 == 1, [("c_op", C("$A"), o, val, isvar)], [op("t")], [], [op("e")])], fwd, back, "middle"))
            yield (f"F1.atom.caseop.{oi}.{vi}",
                   wrap([("switch", ("h_var", C("$V")), [(("k_op", o, val, isvar), [op("a"), ("ctrl", "break")]),
                                                         (None, [op("d")])])], fwd, back, "middle"))
        yield (f"F1.atom.whileop.{oi}",
               wrap([("while", False, ("c_op", 2, o, 7, False), [op("w")])], fwd, back, "middle"))
    for oi, o in enumerate(ASSIGN_OPERATORS):
        for vi, (idx, val, isvar) in enumerate(((None, 6, False), (None, C("$W"), True), (None, C("K"), False), (2, 1, False),
                                                (0, 3, False), (None, ("dec", "1.5"), False))):
            yield f"F1.atom.assign.{oi}.{vi}", wrap([("assign", C("$V"), idx, o, val, isvar)], fwd, back, "middle")
    for o in ("==", "<", "<=", ">", ">="):
        for a, b in ((0, 0), (4, 1), (0x10, 3)):
            yield f"F1.atom.scn.{o}.{a}.{b}", wrap([("if", False, [("c_scn", 3, o, a, b)], [op("t")], [], None)], fwd, back, "middle")
    for i in (0, 1, 5, 12):
        yield f"F1.atom.bit.{i}", wrap([("if", False, [("c_bit", False, 7, i)], [op("t")], [], None),
                                        ("if", True, [("c_bit", False, C("$PERFORMANCE_PROGRESS_LIST"), i),
                                                      ("c_bit", True, C("$PERFORMANCE_PROGRESS_LIST"), i + 1)], [op("u")], [], None),
                                        ("assign", C("$PERFORMANCE_PROGRESS_LIST"), i, "=", 1, False),
                                        ("assign", C("$PERFORMANCE_PROGRESS_LIST"), i, "=", 0, False),
                                        ("setscn", 3, i, i + 1), ("dmode", i, 2), ("advlog", i)], fwd, back, "middle")
    # a construct that has been closed inside a loop / case, followed by a control statement of the ENCLOSING loop / case
    cnd, cnd2 = CONDS[0], CONDS[3]
    closed = {
        "while": [("while", False, cnd2, [op("i")])], "whilenot": [("while", True, cnd2, [op("i")])],
        "for": [("for", ("assign", C("$J"), None, "=", 0, False), ("c_op", C("$J"), "<", 2, False),
                 ("assign", C("$J"), None, "+=", 1, False), [op("i")])],
        "forever": [("forever", [op("i"), ("ctrl", "break_loop")])],
        "switch": [("switch", ("h_var", C("$V")), [(("k_val", 1), [op("i"), ("ctrl", "break")]), (None, [op("j")])])],
        "ifnot": [("if", True, [cnd2], [op("i")], [(True, [cnd], [op("j")])], None)],
    }
    for cname, inner in closed.items():
        for ctl in ("continue", "break_loop"):
            tail = [("if", False, [cnd], [("ctrl", ctl)], [], None), op("rest")]
            yield f"F1.closed.{cname}.{ctl}.forever", wrap([("forever", [op("o")] + inner + tail + [("ctrl", "break_loop")])], fwd, back, "middle")
            yield f"F1.closed.{cname}.{ctl}.while", wrap([("while", False, cnd, [op("o")] + inner + tail)], fwd, back, "middle")
            yield (f"F1.closed.{cname}.{ctl}.for",
                   wrap([("for", ("assign", C("$I"), None, "=", 0, False), ("c_op", C("$I"), "<", 3, False),
                          ("assign", C("$I"), None, "+=", 1, False), [op("o")] + inner + tail)], fwd, back, "middle"))
            yield f"F1.closed.{cname}.{ctl}.direct", wrap([("while", True, cnd, inner + [("ctrl", ctl)])], fwd, back, "middle")
        yield (f"F1.closed.{cname}.break",
               wrap([("switch", ("h_var", C("$W")), [(("k_val", 1), [op("o")] + inner + [("if", False, [cnd], [("ctrl", "break")], [], None), op("r")]),
                                                     (("k_val", 2), inner + [("ctrl", "break")]), (None, [op("d")])])], fwd, back, "middle"))
    # a switch inside a loop whose cases end in the loop's control statements (or fall through)
    LC = [[op("x"), ("ctrl", "continue")], [op("x"), ("ctrl", "break_loop")], [op("x"), ("ctrl", "break")], [("ctrl", "continue")],
          [("ctrl", "break_loop")], [op("x")]]
    for i1, c1 in enumerate(LC):
        for i2, c2 in enumerate(LC):
            c2 = [(op("y") if s_ == op("x") else s_) for s_ in c2]
            sw = ("switch", ("h_var", C("$A")), [(("k_val", 1), c1), (("k_val", 2), c2), (None, [op("z"), ("ctrl", "break")])])
            yield f"F1.swloop.{i1}.{i2}.forever", wrap([("forever", [op("b"), sw, op("c")])], fwd, back, "middle")
            if (i1 + i2) % 2 == 0:
                yield f"F1.swloop.{i1}.{i2}.while", wrap([("while", True, cnd, [op("b"), sw, op("c")])], fwd, back, "middle")
            else:
                yield (f"F1.swloop.{i1}.{i2}.for",
                       wrap([("for", ("assign", C("$I"), None, "=", 0, False), ("c_op", C("$I"), "<", 3, False),
                              ("assign", C("$I"), None, "+=", 1, False), [op("b"), sw, op("c")])], fwd, back, "middle"))
    for neg, eneg, e2neg in itertools.product((False, True), repeat=3):
        for bi in range(nb):
            elifs = [(eneg, [CONDS[4]], B[bi]), (e2neg, [CONDS[8], CONDS[0]], [op("e2")])]
            for els in (None, [op("els")]):
                yield (f"F1.elif.{neg}.{eneg}.{e2neg}.b{bi}.{els is not None}",
                       wrap([("if", neg, [CONDS[1]], [op("t")], elifs, els)], fwd, back, "middle"))
    if tier == "thorough":
        for b1, b2, b3 in itertools.product(range(nb), repeat=3):
            for neg, eneg in itertools.product((False, True), repeat=2):
                yield (f"F1.if3.{neg}.{eneg}.{b1}.{b2}.{b3}",
                       wrap([("if", neg, [CONDS[1], CONDS[3]], B[b1], [(eneg, [CONDS[4]], B[b2])], B[b3])], fwd, back,
                            "middle"))
    # switches
    BC = bodies(fr, fwd, back, True, False)
    for hi, h in enumerate(SWITCH_HEADERS):
        yield f"F1.swh.{hi}", wrap([("switch", h, [(CASE_HEADERS[0], [op("a"), ("ctrl", "break")]), (None, [op("d")])])],
                                   fwd, back, "middle")
        yield f"F1.swh.{hi}.empty", wrap([("switch", h, [])], fwd, back, "middle")
    for ki, k in enumerate(CASE_HEADERS):
        yield f"F1.swk.{ki}", wrap([("switch", SWITCH_HEADERS[0], [(k, [op("a")]), (CASE_HEADERS[0], [op("b")])])],
                                   fwd, back, "middle")
        yield f"F1.swk.scn.{ki}", wrap([("switch", ("h_scn", C("$S"), 0), [(k, [op("a"), ("ctrl", "break")])])],
                                       fwd, back, "middle")
    for pos in positions:
        for bi in range(len(BC)):
            for dpos in (None, 0, 1, 2, 3):
                cases: list[tuple] = [(("k_val", 1), [op("c1")]), (("k_val", 2), BC[bi]), (("k_val", 3), [op("c3")])]
                if dpos is not None:
                    cases.insert(dpos, (None, [op("dflt")]))
                if not cases[-1][1]:
                    continue
                yield f"F1.sw.{pos}.b{bi}.d{dpos}", wrap([("switch", ("h_var", C("$V")), cases)], fwd, back, pos)
            # the varied body in the default, and as the only case
            yield (f"F1.swd.{pos}.b{bi}", wrap([("switch", ("h_var", C("$V")),
                                                 [(("k_val", 1), [op("c1")]), (None, BC[bi]), (("k_val", 3), [op("c3")])])],
                                               fwd, back, pos))
            if BC[bi]:
                yield (f"F1.sw1.{pos}.b{bi}", wrap([("switch", ("h_var", C("$V")), [(("k_val", 1), BC[bi])])], fwd, back, pos))
                yield (f"F1.swlast.{pos}.b{bi}", wrap([("switch", ("h_var", C("$V")),
                                                        [(("k_val", 1), [op("c1")]), (("k_val", 2), BC[bi])])], fwd, back, pos))
    if tier == "thorough":
        for b1, b2, b3 in itertools.product(range(len(BC)), repeat=3):
            if not BC[b3]:
                continue
            for dpos in (None, 0, 2, 3):
                cases = [(("k_val", 1), BC[b1]), (("k_op", ">", 2, False), BC[b2]), (("k_val", 3), BC[b3])]
                if dpos is not None:
                    cases.insert(dpos, (None, [op("dflt"), ("ctrl", "break")]))
                yield f"F1.sw3.{b1}.{b2}.{b3}.d{dpos}", wrap([("switch", ("h_var", C("$V")), cases)], fwd, back, "middle")
    # loops
    BL = bodies(fr, fwd, back, False, True)
    for pos in positions:
        for bi in range(len(BL)):
            yield f"F1.forever.{pos}.b{bi}", wrap([("forever", BL[bi])], fwd, back, pos)
            for neg in (False, True):
                yield f"F1.while.{pos}.{neg}.b{bi}", wrap([("while", neg, CONDS[bi % len(CONDS)], BL[bi])], fwd, back, pos)
            yield (f"F1.for.{pos}.b{bi}",
                   wrap([("for", ("assign", C("$I"), None, "=", 0, False), ("c_op", C("$I"), "<", 3, False),
                          ("assign", C("$I"), None, "+=", 1, False), BL[bi])], fwd, back, pos))
    yield "F1.for.opinit", wrap([("for", op("init"), CONDS[0], op("incr"), [op("body"), ("ctrl", "continue")])], fwd, back,
                                "middle")


# ---- F2: nesting (seeded random) ----------------------------------------------------------------------------------
def _rand_body(rng: random.Random, fr: Fresh, depth: int, in_case: bool, in_loop: bool, labels: list[str],
               maxlen: int = 3) -> list[tuple]:
    n = rng.randint(0, maxlen)
    out: list[tuple] = []
    for _ in range(n):
        out.append(_rand_stmt(rng, fr, depth, in_case, in_loop, labels))
    return out


def _rand_stmt(rng: random.Random, fr: Fresh, depth: int, in_case: bool, in_loop: bool, labels: list[str]) -> tuple:
    r = rng.random()
    if depth <= 0 or r < 0.35:
        choices: list[tuple] = [op(fr.opname()), op(fr.opname(), rng.randint(0, 3)), rng.choice(SIMPLE_ACTIONS)]
        if labels:
            choices += [("jump", rng.choice(labels)), ("call", rng.choice(labels))]
        choices += [("ctrl", rng.choice(["return", "end", "hold"]))]
        if in_case:
            choices += [("ctrl", "break")] * 2
        if in_loop:
            choices += [("ctrl", "continue"), ("ctrl", "break_loop")]
        return rng.choice(choices)
    if r < 0.6:
        nh = rng.randint(1, 2)
        conds = [rng.choice(CONDS) for _ in range(nh)]
        elifs = [(rng.random() < 0.5, [rng.choice(CONDS) for _ in range(rng.randint(1, 2))],
                  _rand_body(rng, fr, depth - 1, in_case, in_loop, labels)) for _ in range(rng.randint(0, 2))]
        els = _rand_body(rng, fr, depth - 1, in_case, in_loop, labels) if rng.random() < 0.5 else None
        return ("if", rng.random() < 0.5, conds, _rand_body(rng, fr, depth - 1, in_case, in_loop, labels), elifs, els)
    if r < 0.8:
        nc = rng.randint(0, 3)
        cases: list[tuple] = []
        for _ in range(nc):
            cases.append((rng.choice(CASE_HEADERS), _rand_body(rng, fr, depth - 1, True, in_loop, labels)))
        if rng.random() < 0.6:
            cases.insert(rng.randint(0, len(cases)), (None, _rand_body(rng, fr, depth - 1, True, in_loop, labels)))
        if cases and not cases[-1][1]:
            cases[-1] = (cases[-1][0], [op(fr.opname())])
        return ("switch", rng.choice(SWITCH_HEADERS), cases)
    kind = rng.choice(["forever", "while", "for"])
    body = _rand_body(rng, fr, depth - 1, in_case, True, labels)
    if kind == "forever":
        return ("forever", body)
    if kind == "while":
        return ("while", rng.random() < 0.5, rng.choice(CONDS), body)
    return ("for", ("assign", C("$I"), None, "=", 0, False), rng.choice(CONDS), ("assign", C("$I"), None, "+=", 1, False),
            body)


def _sprinkle_labels(rng: random.Random, body: list[tuple], labels: list[str]) -> list[tuple]:
    """define every label exactly once at a random top-level position"""
    out = list(body)
    for l in labels:
        out.insert(rng.randint(0, len(out)), ("label", l))
    return out


def f2_nesting(seed: int, n: int, depth: int = 3) -> Iterator[tuple[str, dict[str, Any]]]:
    rng = random.Random(seed * 7919 + 17)
    for i in range(n):
        fr = Fresh()
        labels = [f"l{j}" for j in range(rng.randint(0, 3))]
        nr = rng.randint(1, 2)
        routines = []
        for r in range(nr):
            body = _rand_body(rng, fr, depth, False, False, labels, maxlen=4)
            mine = [l for j, l in enumerate(labels) if j % nr == r]
            body = _sprinkle_labels(rng, body, mine)
            if rng.random() < 0.7:
                body.append(("ctrl", rng.choice(["end", "return", "hold"])))
            routines.append(("def", r, body))
        yield f"F2.{seed}.{i}", {"routines": routines}


# ---- F3: label graphs ------------------------------------------------------------------------------------------
def f3_labels(tier: str, seed: int, n: int) -> Iterator[tuple[str, dict[str, Any]]]:
    # exhaustive: one routine, <= 3 (quick) / 4 (thorough) statements over a small alphabet, label l defined once
    alphabet: list[tuple] = [op("a"), ("jump", "l"), ("call", "l"), ("ctrl", "return"), ("label", "l"), ("label", "m"),
                             ("jump", "m")]
    maxn = 3 if tier == "quick" else 4
    for k in range(1, maxn + 1):
        for combo in itertools.product(range(len(alphabet)), repeat=k):
            st = [alphabet[i] for i in combo]
            defs = [s[1] for s in st if s[0] == "label"]
            uses = [s[1] if s[0] != "with" else s[3][1] for s in st if s[0] in ("jump", "call") or s[0] == "with"]
            if len(set(defs)) != len(defs) or any(u not in defs for u in uses):
                continue
            if not uses:
                continue
            yield f"F3.x.{'-'.join(map(str, combo))}", {"routines": [("def", 0, st)]}
    # cross-routine and routine-end labels (seeded)
    rng = random.Random(seed * 104729 + 5)
    for i in range(n):
        nr = rng.randint(2, 3)
        labels = [f"x{j}" for j in range(rng.randint(1, 3))]
        routines = []
        for r in range(nr):
            body: list[tuple] = []
            for _ in range(rng.randint(1, 4)):
                body.append(rng.choice([op(f"o{r}"), ("jump", rng.choice(labels)), ("call", rng.choice(labels)),
                                        ("ctrl", "end"), op(f"p{r}", r)]))
            routines.append([r, body])
        for l in labels:
            r = rng.randrange(nr)
            routines[r][1].insert(rng.randint(0, len(routines[r][1])), ("label", l))
        yield f"F3.r.{seed}.{i}", {"routines": [("def", r, b) for r, b in routines]}


# ---- F4: routine tables ---------------------------------------------------------------------------------------------
def f4_tables() -> Iterator[tuple[str, dict[str, Any]]]:
    body = [op("a"), ("ctrl", "end")]
    yield "F4.mixed", {"routines": [("def", 0, body), ("for", 1, "actor", C("ACTOR_P"), body, False),
                                    ("for", 2, "object", 5, body, False), ("for", 3, "performer", 0, body, True),
                                    ("def", 4, "alias"), ("for", 5, "actor", 7, "alias", True)]}
    yield "F4.coro", {"routines": [("coro", "CORO_A", body), ("coro", "CORO_B", "alias"), ("coro", "C3", [op("x")])]}
    yield "F4.legacy", {"routines": [("for", 0, "actor", C("A"), body, True), ("for", 1, "object", C("O"), body, True)]}
    yield "F4.single", {"routines": [("def", 0, [("ctrl", "hold")])]}
    # jumps into another routine (labels are file-global): forwards, backwards, from inside a block, twice to one label
    r0 = [op("a0"), ("label", "in0"), op("b0"), ("ctrl", "end")]
    cnd = ("c_neg", False, "debug")
    yield "F4.xjump.back", {"routines": [("def", 0, r0), ("for", 1, "actor", 3, [op("c1"), ("jump", "in0")], False)]}
    yield "F4.xjump.twice", {"routines": [("def", 0, r0), ("for", 1, "actor", 3, [op("c1"), ("if", False, [cnd], [op("d1"), ("jump", "in0")], [], None),
                                                                                 op("e1"), ("jump", "in0")], False)]}
    yield "F4.xjump.fwd", {"routines": [("def", 0, [op("a0"), ("if", True, [cnd], [("jump", "in1")], [], None), op("b0"), ("ctrl", "end")]),
                                        ("def", 1, [op("a1"), ("label", "in1"), op("b1"), ("ctrl", "return")])]}
    yield "F4.xjump.coro", {"routines": [("coro", "CA", r0), ("coro", "CB", [op("c1"), ("jump", "in0")]),
                                         ("coro", "CC", [("jump", "in0")])]}


def programs(tier: str, seed: int) -> Iterator[tuple[str, dict[str, Any]]]:
    yield from f1_constructs(tier)
    yield from f2_nesting(seed, 150 if tier == "quick" else 6000, 2 if tier == "quick" else 3)
    yield from f3_labels(tier, seed, 60 if tier == "quick" else 2000)
    yield from f4_tables()


# ---- F6(c): raw routine sets (seeded) --------------------------------------------------------------------------
def f6_raw(seed: int, n: int, maxops: int = 6) -> Iterator[tuple[str, Any]]:
    """well-formed op lists as a binary reader delivers them: ("raw", [routine kinds], [[(name, params, target_index|None)]])
    targets are indices into the global op numbering; every routine ends in a flow-ending op or a jump"""
    rng = random.Random(seed * 15485863 + 11)
    acts = [("a", [1]), ("b", []), ("say", [("str", "x")]), ("flag_Set", [("const", "$V"), 3])]
    for i in range(n):
        nr = rng.randint(1, 2)
        sizes = [rng.randint(1, maxops) for _ in range(nr)]
        total = sum(sizes)
        routines = []
        base = 0
        for r in range(nr):
            ops: list[Any] = []
            for k in range(sizes[r]):
                last = k == sizes[r] - 1
                if last:
                    choice = rng.choice(["Return", "End", "Hold", "Jump"])
                else:
                    choice = rng.choice(["act", "act", "ctx", "Branch", "BranchBit", "Jump", "Call", "Return", "End",
                                         "Hold", "Switch", "Case"])
                tgt = rng.randrange(total) if rng.random() < 0.25 else base + rng.randrange(sizes[r])
                if choice == "act":
                    nm, ps = rng.choice(acts)
                    ops.append((nm, list(ps), None))
                elif choice == "ctx":
                    ops.append((rng.choice(["lives", "object", "performer"]), [rng.randint(0, 3)], None))
                elif choice == "Branch":
                    ops.append(("Branch", [("const", "$A"), rng.randint(0, 2)], tgt))
                elif choice == "BranchBit":
                    ops.append(("BranchBit", [("const", "$B"), 1], tgt))
                elif choice == "Switch":
                    ops.append(("Switch", [("const", "$V")], None))
                elif choice == "Case":
                    if ops and ops[-1][0] in ("Switch", "Case"):
                        ops.append(("Case", [rng.randint(0, 3)], tgt))
                    else:
                        ops.append(("Switch", [("const", "$V")], None))
                elif choice in ("Jump", "Call"):
                    ops.append((choice, [], tgt))
                else:
                    ops.append((choice, [], None))
            routines.append(ops)
            base += sizes[r]
        yield f"F6c.{seed}.{i}", ("raw", routines)


def build_raw(raw: Any) -> tuple[list[Any], list[list[Any]], list[Any]]:
    """materialise an F6(c) description as real SsbOperation lists with reader-style offsets"""
    from explorerscript.ssb_converting.ssb_data_types import (SsbOperation, SsbOpCode, SsbRoutineInfo, SsbRoutineType,
                                                             SsbOpParamConstant, SsbOpParamConstString)

    def val(v: Any) -> Any:
        if isinstance(v, tuple) and v[0] == "const":
            return SsbOpParamConstant(v[1])
        if isinstance(v, tuple) and v[0] == "str":
            return SsbOpParamConstString(v[1])
        return v

    _, routines = raw
    infos = [SsbRoutineInfo(SsbRoutineType.GENERIC, 0) for _ in routines]
    out = []
    n = 0
    for r in routines:
        ops = []
        for (nm, ps, tgt) in r:
            params = [val(p) for p in ps]
            if tgt is not None:
                params.append(tgt)
            ops.append(SsbOperation(n, SsbOpCode(-1, nm), params))
            n += 1
        out.append(ops)
    return infos, out, [None] * len(routines)


# ---- F5: macros -------------------------------------------------------------------------------------------------
def _macro_body(name: str, params: list[str], callees: list[tuple[str, list[Any]]], variant: int) -> list[tuple]:
    """body using its parameters as op argument, condition operand and with-target; private labels; return"""
    p0 = C(params[0]) if params else 1
    body: list[tuple] = [op(f"{name}_in", p0)]
    if variant % 3 == 0:
        body += [("if", False, [("c_op", p0, "==", 3, False)], [op(f"{name}_t"), ("ctrl", "return")], [], None)]
    elif variant % 3 == 1:
        body += [("label", "again"), op(f"{name}_loop"), ("if", variant % 2 == 1, [("c_neg", False, "debug")], [("jump", "again")], [], None)]
    else:
        body += [("with", "actor", p0, op(f"{name}_ctx"))]
    for (callee, args) in callees:
        body.append(("macrocall", callee, args))
    body.append(op(f"{name}_out", *[C(p) for p in params]))
    return body


def f5_macros(tier: str, seed: int) -> Iterator[tuple[str, dict[str, Any]]]:
    """all labelled DAGs on <= 3 (quick) / 4 (thorough) macros x definition orders x call order; same file and
    imported layouts"""
    maxn = 3 if tier == "quick" else 4
    names = ["ma", "mb", "mc", "md"]
    count = 0
    for n in range(1, maxn + 1):
        pairs = [(i, j) for i in range(n) for j in range(i + 1, n)]  # edge i -> j : macro i calls macro j (acyclic)
        for mask in range(1 << len(pairs)):
            edges = [pairs[k] for k in range(len(pairs)) if mask >> k & 1]
            for rev in (False, True):
                macros = []
                for i in range(n):
                    callees_idx = [j for (a, j) in edges if a == i]
                    if rev:
                        callees_idx = list(reversed(callees_idx))
                    params = ["$p", "$q"][: 1 + (i % 2)]
                    callees = [(names[j], [C("$p"), 7][: 1 + (j % 2)]) for j in callees_idx]
                    macros.append(("macro", names[i], params, _macro_body(names[i], params, callees, i + mask)))
                # the routine calls every root (macro nobody calls) twice with different arguments
                called = {j for (_a, j) in edges}
                body: list[tuple] = [op("begin")]
                for i in range(n):
                    if i not in called:
                        body.append(("macrocall", names[i], [C("$VAR_A"), 5][: 1 + (i % 2)]))
                        body.append(("macrocall", names[i], [3, ("str", "s")][: 1 + (i % 2)]))
                body += [op("finish"), ("ctrl", "end")]
                orders = list(itertools.permutations(range(n)))
                if n == 4:
                    # 24 orders x 64 edge sets x 2 call orders took > 90 min at the thorough tier: every 4th order, rotated
                    # with the edge set so that every order occurs for some graphs
                    orders = orders[mask % 4::4]
                for oi, order in enumerate(orders):
                    ms = [macros[i] for i in order]
                    count += 1
                    yield f"F5.{n}.{mask}.{int(rev)}.o{oi}", {"macros": ms, "routines": [("def", 0, body)]}
                # imported layouts for the definition order as written
                if not rev:
                    yield (f"F5.{n}.{mask}.imp", {"imports": ["./lib.exps"], "macros": macros[:1],
                                                  "routines": [("def", 0, body)],
                                                  "files": {"lib.exps": {"macros": macros[1:]}}} if n > 1 else
                           {"macros": macros, "routines": [("def", 0, body)]})
                    if n >= 3:
                        yield (f"F5.{n}.{mask}.imp2",
                               {"imports": ["./sub/l1.exps"], "macros": macros[:1], "routines": [("def", 0, body)],
                                "files": {"sub/l1.exps": {"imports": ["../l2.exps"], "macros": macros[1:2]},
                                          "l2.exps": {"macros": macros[2:]}}})
    # nested parameter passing with swapped / rotated names
    inner2 = ("macro", "inner", ["$a", "$b"], [op("use", C("$a"), C("$b"))])
    yield "F5.swap.depth2", {"macros": [inner2, ("macro", "outer", ["$a", "$b"], [("macrocall", "inner", [C("$b"), C("$a")])])],
                             "routines": [("def", 0, [("macrocall", "outer", [1, 2]), ("ctrl", "end")])]}
    yield "F5.swap.depth3", {"macros": [inner2, ("macro", "mid", ["$b", "$a"], [("macrocall", "inner", [C("$b"), C("$a")])]),
                                        ("macro", "outer", ["$a", "$b"], [("macrocall", "mid", [C("$a"), C("$b")]),
                                                                         ("macrocall", "inner", [C("$b"), C("K")])])],
                             "routines": [("def", 0, [("macrocall", "outer", [C("$X"), ("str", "s")]), ("ctrl", "end")])]}
    inner3 = ("macro", "in3", ["$a", "$b", "$c"], [op("use3", C("$a"), C("$b"), C("$c")),
                                                     ("if", False, [("c_op", C("$c"), "==", C("$a"), False)], [op("t", C("$b"))], [], None)])
    yield "F5.rotate", {"macros": [inner3, ("macro", "rot", ["$a", "$b", "$c"], [("macrocall", "in3", [C("$b"), C("$c"), C("$a")])])],
                        "routines": [("def", 0, [("macrocall", "rot", [1, 2, 3]), ("macrocall", "rot", [C("$c"), C("$a"), 9]),
                                                 ("ctrl", "end")])]}
    # lookup paths: first existing candidate in the given order wins; relative and absolute imports ignore them
    def lib(tag: str) -> dict[str, Any]:
        return {"macros": [("macro", "m", [], [op(tag)])]}

    body = [("macrocall", "m", []), ("ctrl", "end")]
    yield "F5.lookup.first", {"imports": ["lib.exps"], "macros": [], "routines": [("def", 0, body)], "lookup": ["inc1", "inc2"],
                              "files": {"inc1/lib.exps": lib("from1"), "inc2/lib.exps": lib("from2")}, "imported": ["inc1/lib.exps"]}
    yield "F5.lookup.second", {"imports": ["lib.exps"], "macros": [], "routines": [("def", 0, body)], "lookup": ["inc1", "inc2"],
                               "files": {"inc2/lib.exps": lib("from2"), "inc1/other.exps": lib("x")}, "imported": ["inc2/lib.exps"]}
    yield "F5.lookup.order", {"imports": ["lib.exps"], "macros": [], "routines": [("def", 0, body)], "lookup": ["inc2", "inc1"],
                              "files": {"inc1/lib.exps": lib("from1"), "inc2/lib.exps": lib("from2")}, "imported": ["inc2/lib.exps"]}
    yield "F5.lookup.subdir", {"imports": ["sub/lib.exps"], "macros": [], "routines": [("def", 0, body)], "lookup": ["inc1"],
                               "files": {"inc1/sub/lib.exps": lib("from1"), "sub/lib.exps": lib("local")},
                               "imported": ["inc1/sub/lib.exps"]}
    yield "F5.lookup.relative-wins", {"imports": ["./lib.exps"], "macros": [], "routines": [("def", 0, body)], "lookup": ["inc1"],
                                      "files": {"inc1/lib.exps": lib("from1"), "lib.exps": lib("local")}, "imported": ["lib.exps"]}
    # parameter kinds
    kinds: list[Any] = [C("$VAR"), C("CONST"), 5, ("str", "text"), ("lstr", {"english": "e"}), ("dec", "1.5"),
                        ("pos", "m", "1", "2.5")]
    for ki, k in enumerate(kinds):
        yield f"F5.arg.{ki}", {"macros": [("macro", "m", ["$x"], [op("use", C("$x"), 1), ("ctrl", "return"), op("dead")])],
                              "routines": [("def", 0, [("macrocall", "m", [k]), op("after"), ("ctrl", "end")])]}
    yield "F5.labels", {"macros": [("macro", "m", [], [("label", "l"), op("x"), ("if", False, [("c_neg", False, "debug")],
                                                                                       [("jump", "l")], [], None)])],
                        "routines": [("def", 0, [("label", "l"), ("macrocall", "m", []), ("macrocall", "m", []),
                                                 ("if", False, [("c_neg", False, "edit")], [("jump", "l")], [], None),
                                                 ("ctrl", "end")])]}
    yield "F5.retlast", {"macros": [("macro", "m", [], [op("x"), ("ctrl", "return")])],
                         "routines": [("def", 0, [("macrocall", "m", [])])]}
    yield "F5.inblocks", {"macros": [("macro", "m", ["$a"], [("switch", ("h_var", C("$a")), [(("k_val", 1), [("ctrl", "return")]),
                                                                                            (None, [op("d")])]), op("tail")])],
                          "routines": [("def", 0, [("forever", [("macrocall", "m", [C("$V")]), ("ctrl", "break_loop")]),
                                                   ("switch", ("h_var", 1), [(("k_val", 2), [("macrocall", "m", [2]),
                                                                                             ("ctrl", "break")])]),
                                                   ("ctrl", "end")])]}
