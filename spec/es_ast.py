"""A small AST for ExplorerScript with a layout-parameterised printer.

Nodes are plain tuples tagged by their first element; helper constructors below. Values (arguments):
  int                         integer literal
  ("const", "NAME"|"$VAR")    constant / variable identifier
  ("str", "text")             constant string
  ("lstr", {"lang": "text"})  language string
  ("dec", "1.50")             fixed point literal (spelling)
  ("pos", name, x_text, y_text)  position mark, arguments as literal spellings ("3", "4.5")

Statements:
  ("op", name, [args], ctx|None)           ctx = (kind, target) with kind in actor/object/performer
  ("label", name) ("jump", name) ("call", name)
  ("ctrl", kw)                              kw in return end hold continue break break_loop
  ("with", kind, target, stmt)              stmt: a simple statement
  ("if", neg, [conds], body, [(neg, [conds], body)...], else_body|None)
  ("switch", header, [(case_header|None, body)...])      None = default
  ("msgswitch", "message_SwitchTalk"|"message_SwitchMonologue", var, [(value|None, string_value)...])
  ("forever", body) ("while", neg, cond, body) ("for", init_stmt, cond, incr_stmt, body)
  ("assign", var, index|None, operator, value, value_is_var)      operator in = -= += *= /=
  ("clear", var) ("init", var) ("reset", var|None)   None = dungeon_result
  ("advlog", value) ("dmode", dungeon, value) ("setscn", var, a, b)
  ("macrocall", name, [args])
Conditions:
  ("c_op", var, operator, value, value_is_var)      operator in SsbOperator notations + TRUE/FALSE
  ("c_bit", neg, var, index) ("c_neg", neg, kw) ("c_scn", var, operator, a, b) ("c_operation", opstmt)
Switch headers:
  ("h_var", x) ("h_op", opstmt) ("h_scn", var, idx) ("h_random", x) ("h_dmode", x) ("h_sector",)
Case headers:
  ("k_val", x) ("k_menu", string_value) ("k_menu2", x) ("k_op", operator, value, value_is_var)
Routines:
  ("def", id, body|"alias") ("coro", name, body|"alias") ("for", id, kind, target, body|"alias", legacy)
Macros:  ("macro", name, [params "$x"], body)
Program: {"imports": [...], "macros": [...], "routines": [...]}
"""
from __future__ import annotations

from typing import Any

Stmt = tuple
Body = list


def fmt_value(v: Any, ind: int = 0, opts: dict[str, Any] | None = None) -> str:
    opts = opts or {}
    if isinstance(v, bool):
        raise ValueError("bool value")
    if isinstance(v, int):
        base = opts.get("int_base", 10)
        if base == 16:
            return ("-" if v < 0 else "") + hex(abs(v))
        if base == 8:
            return ("-" if v < 0 else "") + oct(abs(v))
        if base == 2:
            return ("-" if v < 0 else "") + bin(abs(v))
        return str(v)
    t = v[0]
    if t == "const":
        return v[1]
    if t == "str":
        q = opts.get("quote", '"')
        s = v[1]
        assert "\n" not in s and "\\" not in s and q not in s, "printer handles plain strings only"
        return q + s + q
    if t == "lstr":
        inner = ", ".join(f"{k}={fmt_value(('str', s), ind, opts)}" for k, s in v[1].items())
        return "{" + inner + (", " if opts.get("trailing_comma") else "") + "}"
    if t == "dec":
        return v[1]
    if t == "pos":
        return f"Position<'{v[1]}', {v[2]}, {v[3]}>"
    raise ValueError(f"unknown value {v!r}")


def fmt_args(args: list[Any], opts: dict[str, Any]) -> str:
    s = ", ".join(fmt_value(a, 0, opts) for a in args)
    if args and opts.get("trailing_comma"):
        s += ","
    return s


def fmt_cond(c: tuple, opts: dict[str, Any]) -> str:
    t = c[0]
    if t == "c_op":
        _, var, op, val, isvar = c
        rhs = f"value({fmt_value(val, 0, opts)})" if isvar else fmt_value(val, 0, opts)
        return f"{fmt_value(var, 0, opts)} {op} {rhs}"
    if t == "c_bit":
        _, neg, var, idx = c
        return f"{'not ' if neg else ''}{fmt_value(var, 0, opts)}[{idx}]"
    if t == "c_neg":
        return f"{'not ' if c[1] else ''}{c[2]}"
    if t == "c_scn":
        _, var, op, a, b = c
        return f"scn({fmt_value(var, 0, opts)}) {op} [{a}, {b}]"
    if t == "c_operation":
        return fmt_simple(c[1], opts)[:-1]
    raise ValueError(c)


def fmt_simple(s: tuple, opts: dict[str, Any]) -> str:
    """simple statements, with trailing ';'"""
    t = s[0]
    if t == "op":
        _, name, args, ctx = s
        c = f"<{ctx[0]} {fmt_value(ctx[1], 0, opts)}>" if ctx else ""
        return f"{name}{c}({fmt_args(args, opts)});"
    if t == "label":
        return f"{opts.get('label_sigil', '@')}{s[1]};"
    if t == "jump":
        return f"jump @{s[1]};"
    if t == "call":
        return f"call @{s[1]};"
    if t == "ctrl":
        return f"{s[1]};"
    if t == "assign":
        _, var, idx, op, val, isvar = s
        lhs = fmt_value(var, 0, opts) + (f"[{idx}]" if idx is not None else "")
        rhs = f"value({fmt_value(val, 0, opts)})" if isvar else fmt_value(val, 0, opts)
        return f"{lhs} {op} {rhs};"
    if t == "clear":
        return f"clear {fmt_value(s[1], 0, opts)};"
    if t == "init":
        return f"init {fmt_value(s[1], 0, opts)};"
    if t == "reset":
        return "reset dungeon_result;" if s[1] is None else f"reset scn({fmt_value(s[1], 0, opts)});"
    if t == "advlog":
        return f"adventure_log = {fmt_value(s[1], 0, opts)};"
    if t == "dmode":
        return f"dungeon_mode({fmt_value(s[1], 0, opts)}) = {fmt_value(s[2], 0, opts)};"
    if t == "setscn":
        return f"{fmt_value(s[1], 0, opts)} = scn[{s[2]}, {s[3]}];"
    raise ValueError(f"not a simple statement: {s!r}")


SIMPLE = {"op", "label", "jump", "call", "ctrl", "assign", "clear", "init", "reset", "advlog", "dmode", "setscn"}


def fmt_switch_header(h: tuple, opts: dict[str, Any]) -> str:
    t = h[0]
    if t == "h_var":
        return fmt_value(h[1], 0, opts)
    if t == "h_op":
        return fmt_simple(h[1], opts)[:-1]
    if t == "h_scn":
        return f"scn({fmt_value(h[1], 0, opts)})[{h[2]}]"
    if t == "h_random":
        return f"random({fmt_value(h[1], 0, opts)})"
    if t == "h_dmode":
        return f"dungeon_mode({fmt_value(h[1], 0, opts)})"
    if t == "h_sector":
        return "sector()"
    raise ValueError(h)


def fmt_case_header(k: tuple, opts: dict[str, Any]) -> str:
    t = k[0]
    if t == "k_val":
        return fmt_value(k[1], 0, opts)
    if t == "k_menu":
        return f"menu({fmt_value(k[1], 0, opts)})"
    if t == "k_menu2":
        return f"menu2({fmt_value(k[1], 0, opts)})"
    if t == "k_op":
        _, op, val, isvar = k
        rhs = f"value({fmt_value(val, 0, opts)})" if isvar else fmt_value(val, 0, opts)
        return f"{op} {rhs}"
    raise ValueError(k)


class Printer:
    """opts: indent (spaces per level, default 4), one_line (bool), comments (bool: a block comment after every
    statement and a line comment before every block), label_sigil, quote, int_base, trailing_comma, legacy_for,
    blank_lines (int)"""

    def __init__(self, **opts: Any):
        self.o = opts
        self.lines: list[str] = []
        # positions of AST nodes in the printed text (0-based line, column), for multi-line layouts:
        # (role, node, line, column) with role in stmt / cond / switch_header / case_header / macrocall
        self.positions: list[tuple[str, Any, int, int]] = []

    def emit(self, ind: int, text: str, node: Any = None, role: str = "stmt", subs: Any = None) -> None:
        pad = " " * (self.o.get("indent", 4) * ind)
        if self.o.get("comments"):
            text = text + " /* c */"
        if node is not None:
            self.positions.append((role, node, len(self.lines), len(pad)))
        for (r2, n2, off) in (subs or []):
            self.positions.append((r2, n2, len(self.lines), len(pad) + off))
        self.lines.append(pad + text)
        for _ in range(self.o.get("blank_lines", 0)):
            self.lines.append("")

    def _cond_subs(self, prefix: str, neg: bool, conds: list[tuple]) -> list[tuple[str, Any, int]]:
        """column offsets of the conditions inside `<prefix>[not ](c1 || c2)`"""
        off = len(prefix) + (4 if neg else 0) + 1
        out = []
        for c in conds:
            out.append(("cond", c, off))
            off += len(fmt_cond(c, self.o)) + 4
        return out

    def body(self, stmts: list[tuple], ind: int) -> None:
        for s in stmts:
            self.stmt(s, ind)

    def conds(self, neg: bool, conds: list[tuple]) -> str:
        return ("not " if neg else "") + "(" + " || ".join(fmt_cond(c, self.o) for c in conds) + ")"

    def stmt(self, s: tuple, ind: int) -> None:
        o = self.o
        t = s[0]
        if t in SIMPLE:
            self.emit(ind, fmt_simple(s, o), s)
        elif t == "macrocall":
            self.emit(ind, f"~{s[1]}({fmt_args(s[2], o)});", s, "macrocall")
        elif t == "with":
            _, kind, target, inner = s
            self.emit(ind, f"with ({kind} {fmt_value(target, 0, o)}) {{", s, "with")
            self.emit(ind + 1, fmt_simple(inner, o), inner)
            self.emit(ind, "}")
        elif t == "if":
            _, neg, conds, body, elifs, els = s
            self.emit(ind, f"if {self.conds(neg, conds)} {{", s, "block", self._cond_subs("if ", neg, conds))
            self.body(body, ind + 1)
            for ei, (eneg, econds, ebody) in enumerate(elifs):
                self.emit(ind, f"}} elseif {self.conds(eneg, econds)} {{", (s, "elif", ei), "block",
                          self._cond_subs("} elseif ", eneg, econds))
                self.body(ebody, ind + 1)
            if els is not None:
                self.emit(ind, "} else {")
                self.body(els, ind + 1)
            self.emit(ind, "}")
        elif t == "switch":
            _, header, cases = s
            self.emit(ind, f"switch ({fmt_switch_header(header, o)}) {{", s, "block", [("switch_header", header, 8)])
            for (kh, body) in cases:
                self.emit(ind + 1, "default:" if kh is None else f"case {fmt_case_header(kh, o)}:", None, "stmt",
                          [] if kh is None else [("case_header", kh, 5)])
                self.body(body, ind + 2)
            self.emit(ind, "}")
        elif t == "msgswitch":
            _, kind, var, cases = s
            self.emit(ind, f"{kind} ({fmt_value(var, 0, o)}) {{", s, "block")
            for (val, text) in cases:
                self.emit(ind + 1, "default:" if val is None else f"case {fmt_value(val, 0, o)}:", (val, text), "msgcase")
                self.emit(ind + 2, fmt_value(text, 0, o))
            self.emit(ind, "}")
        elif t == "forever":
            self.emit(ind, "forever {", s, "block")
            self.body(s[1], ind + 1)
            self.emit(ind, "}")
        elif t == "while":
            _, neg, cond, body = s
            self.emit(ind, f"while {'not ' if neg else ''}({fmt_cond(cond, o)}) {{", s, "block",
                      [("cond", cond, len("while ") + (4 if neg else 0) + 1)])
            self.body(body, ind + 1)
            self.emit(ind, "}")
        elif t == "for":
            _, init, cond, incr, body = s
            i_txt, c_txt = fmt_simple(init, o), fmt_cond(cond, o)
            self.emit(ind, f"for ({i_txt} {c_txt}; {fmt_simple(incr, o)}) {{", s, "block",
                      [("stmt", init, 5), ("cond", cond, 5 + len(i_txt) + 1), ("stmt", incr, 5 + len(i_txt) + 1 + len(c_txt) + 2)])
            self.body(body, ind + 1)
            self.emit(ind, "}")
        else:
            raise ValueError(f"unknown statement {s!r}")

    def routine(self, r: tuple) -> None:
        o = self.o
        t = r[0]
        if t == "def":
            head, body = f"def {r[1]}", r[2]
        elif t == "coro":
            head, body = f"coro {r[1]}", r[2]
        elif t == "for":
            _, rid, kind, target, body, legacy = r
            tv = fmt_value(target, 0, o)
            if legacy or o.get("legacy_for"):
                head = f"def {rid} for_{kind}({tv})"
            else:
                head = f"def {rid} for {kind} {tv}" if not o.get("for_parens") else f"def {rid} for {kind}({tv})"
        else:
            raise ValueError(r)
        self.emit(0, head + " {")
        if body == "alias":
            self.emit(1, "alias previous;")
        else:
            self.body(body, 1)
        self.emit(0, "}")

    def program(self, p: dict[str, Any]) -> str:
        for imp in p.get("imports", []):
            self.emit(0, f'import "{imp}";')
        for m in p.get("macros", []):
            _, name, params, body = m
            self.emit(0, f"macro {name}({', '.join(params)}) {{")
            self.body(body, 1)
            self.emit(0, "}")
        for r in p.get("routines", []):
            self.routine(r)
        if self.o.get("one_line"):
            return " ".join(x.strip() for x in self.lines if x.strip()) + "\n"
        return "\n".join(self.lines) + "\n"


def to_text(p: dict[str, Any], **opts: Any) -> str:
    return Printer(**opts).program(p)


def to_text_with_positions(p: dict[str, Any], **opts: Any) -> tuple[str, list[tuple[str, Any, int, int]]]:
    pr = Printer(**opts)
    assert not opts.get("one_line")
    text = pr.program(p)
    return text, pr.positions
