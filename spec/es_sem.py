"""Reference semantics of ExplorerScript as a labelled transition system, written from docs/language_spec.rst
(and the C01 statement). Imports nothing from the compiler."""
from __future__ import annotations

from typing import Any

from spec.lts import Lts, ACT, TEST, STOP, SILENT

PERF_VAR = "$PERFORMANCE_PROGRESS_LIST"

COND_OPS = {"FALSE": 0, "TRUE": 1, "==": 2, ">": 3, "<": 4, ">=": 5, "<=": 6, "!=": 7, "&": 8, "^": 9, "&<<": 10}
CALC_OPS = {"=": 0, "-=": 1, "+=": 2, "*=": 3, "/=": 4}
CTX_OPS = {"actor": "lives", "object": "object", "performer": "performer"}
SCN_BRANCH = {"==": "BranchScenarioNow", ">=": "BranchScenarioNowAfter", "<=": "BranchScenarioNowBefore",
              ">": "BranchScenarioAfter", "<": "BranchScenarioBefore"}
BRANCH_OPS = {"Branch", "BranchBit", "BranchDebug", "BranchEdit", "BranchExecuteSub", "BranchPerformance",
              "BranchScenarioNow", "BranchScenarioNowAfter", "BranchScenarioNowBefore", "BranchScenarioAfter",
              "BranchScenarioBefore", "BranchSum", "BranchValue", "BranchVariable", "BranchVariation"}
FLOW_END = {"return": "Return", "end": "End", "hold": "Hold"}


class SemError(Exception):
    """the program is statically invalid according to the specification"""


def canon_decimal(text: str) -> str:
    neg = text.startswith("-")
    body = text[1:] if neg else text
    w, _, f = body.partition(".")
    w = w.lstrip("0") or "0"
    return ("-" if neg else "") + w + "." + f


def pos_arg(text: str) -> tuple[int, int]:
    """(tile, half-offset) of a position-mark argument spelling"""
    if "." not in text:
        return int(text, 0), 0
    neg = text.startswith("-")
    body = text[1:] if neg else text
    w, _, f = body.partition(".")
    tile = int(w) if w else 0
    if neg:
        tile = -tile
    fz = f.rstrip("0")
    if fz == "":
        return tile, 0
    if fz == "5":
        return tile, 2
    raise SemError("position mark fraction must be .5")


def norm_value(v: Any, subst: dict[str, Any] | None = None) -> Any:
    if isinstance(v, int):
        return v
    t = v[0]
    if t == "const":
        if subst is not None and v[1] in subst:
            return norm_value(subst[v[1]], None)
        return ("const", v[1])
    if t == "str":
        return ("str", v[1])
    if t == "lstr":
        return ("lstr", tuple(sorted(v[1].items())))
    if t == "dec":
        return ("dec", canon_decimal(v[1]))
    if t == "pos":
        x, xo = pos_arg(v[2])
        y, yo = pos_arg(v[3])
        return ("pos", v[1], xo, yo, x, y)
    raise ValueError(v)


class Env:
    def __init__(self, g: Lts, labels: dict[str, int], macros: dict[str, tuple]):
        self.g = g
        self.labels = labels  # label name -> SILENT placeholder node
        self.defined: set[str] = set()
        self.macros = macros
        self.break_target: int | None = None
        self.continue_target: int | None = None
        self.loop_end: int | None = None
        self.macro_return: int | None = None
        self.subst: dict[str, Any] | None = None
        self.depth = 0

    def child(self, **kw: Any) -> "Env":
        e = Env(self.g, self.labels, self.macros)
        e.defined = self.defined
        e.break_target, e.continue_target, e.loop_end = self.break_target, self.continue_target, self.loop_end
        e.macro_return, e.subst, e.depth = self.macro_return, self.subst, self.depth
        for k, v in kw.items():
            setattr(e, k, v)
        return e

    def label(self, name: str) -> int:
        if name not in self.labels:
            self.labels[name] = self.g.new(SILENT, ("label", name), None)
        return self.labels[name]

    def val(self, v: Any) -> Any:
        return norm_value(v, self.subst)


def cond_label(c: tuple, env: Env) -> tuple[str, tuple]:
    """(opcode, params) of the branch op the spec assigns to an if-condition"""
    t = c[0]
    if t == "c_op":
        _, var, op, val, isvar = c
        if op not in COND_OPS:
            raise SemError(f"operator {op}")
        if isvar:
            return "BranchVariable", (env.val(var), COND_OPS[op], env.val(val))
        if op == "==":
            return "Branch", (env.val(var), env.val(val))
        return "BranchValue", (env.val(var), COND_OPS[op], env.val(val))
    if t == "c_bit":
        _, neg, var, idx = c
        v = env.val(var)
        if v == ("const", PERF_VAR):
            return "BranchPerformance", (idx, 0 if neg else 1)
        if neg:
            raise SemError("`not` on a bit test of an ordinary variable")
        return "BranchBit", (v, idx)
    if t == "c_neg":
        _, neg, kw = c
        return {"debug": "BranchDebug", "edit": "BranchEdit", "variation": "BranchVariation"}[kw], (0 if neg else 1,)
    if t == "c_scn":
        _, var, op, a, b = c
        if op not in SCN_BRANCH:
            raise SemError("scn operator")
        return SCN_BRANCH[op], (env.val(var), a, b)
    if t == "c_operation":
        _, name, args, ctx = c[1]
        if name not in BRANCH_OPS or ctx is not None:
            raise SemError("operation is not a branch operation")
        return name, tuple(env.val(a) for a in args)
    raise ValueError(c)


def switch_header_label(h: tuple, env: Env) -> tuple[str, tuple]:
    t = h[0]
    if t == "h_var":
        return "Switch", (env.val(h[1]),)
    if t == "h_op":
        _, name, args, ctx = h[1]
        if ctx is not None:
            raise SemError("inline context in switch header")
        return name, tuple(env.val(a) for a in args)
    if t == "h_scn":
        if h[2] == 0:
            return "SwitchScenario", (env.val(h[1]),)
        if h[2] == 1:
            return "SwitchScenarioLevel", (env.val(h[1]),)
        raise SemError("scn index")
    if t == "h_random":
        return "SwitchRandom", (env.val(h[1]),)
    if t == "h_dmode":
        return "SwitchDungeonMode", (env.val(h[1]),)
    if t == "h_sector":
        return "SwitchSector", ()
    raise ValueError(h)


def case_label(k: tuple, env: Env) -> tuple[str, tuple]:
    t = k[0]
    if t == "k_val":
        return "Case", (env.val(k[1]),)
    if t == "k_menu":
        return "CaseMenu", (env.val(k[1]),)
    if t == "k_menu2":
        return "CaseMenu2", (env.val(k[1]),)
    if t == "k_op":
        _, op, val, isvar = k
        return ("CaseVariable" if isvar else "CaseValue"), (COND_OPS[op], env.val(val))
    raise ValueError(k)


def simple_action(s: tuple, env: Env) -> tuple[str, tuple]:
    """opcode and parameters of assignments"""
    t = s[0]
    if t == "assign":
        _, var, idx, op, val, isvar = s
        v = env.val(var)
        if idx is not None:
            if isvar:
                raise SemError("value() with index assignment")
            if v == ("const", PERF_VAR):
                return "flag_SetPerformance", (idx, env.val(val))
            return "flag_CalcBit", (v, idx, env.val(val))
        if isvar:
            return "flag_CalcVariable", (v, CALC_OPS[op], env.val(val))
        if op == "=":
            return "flag_Set", (v, env.val(val))
        return "flag_CalcValue", (v, CALC_OPS[op], env.val(val))
    if t == "clear":
        return "flag_Clear", (env.val(s[1]),)
    if t == "init":
        return "flag_Initial", (env.val(s[1]),)
    if t == "reset":
        return ("flag_ResetDungeonResult", ()) if s[1] is None else ("flag_ResetScenario", (env.val(s[1]),))
    if t == "advlog":
        return "flag_SetAdventureLog", (env.val(s[1]),)
    if t == "dmode":
        return "flag_SetDungeonMode", (env.val(s[1]), env.val(s[2]))
    if t == "setscn":
        return "flag_SetScenario", (env.val(s[1]), s[2], s[3])
    raise ValueError(s)


def seq(stmts: list[tuple], k: int, env: Env) -> int:
    """entry node of the statement list whose continuation is node k"""
    for s in reversed(stmts):
        k = stmt(s, k, env)
    return k


def _simple(s: tuple, k: int, env: Env, in_ctx: bool) -> int:
    g = env.g
    t = s[0]
    if t == "op":
        _, name, args, ctx = s
        n = g.new(ACT, (name, tuple(env.val(a) for a in args)), k)
        if ctx is not None:
            if in_ctx:
                raise SemError("inline context inside a with-block")
            return g.new(ACT, (CTX_OPS[ctx[0]], (env.val(ctx[1]),)), n)
        return n
    if t == "label":
        if in_ctx:
            raise SemError("label in with-block")
        if s[1] in env.defined:
            raise SemError(f"label {s[1]} defined twice")
        env.defined.add(s[1])
        n = env.label(s[1])
        g.set_next(n, k)
        return n
    if t == "jump":
        return g.new(SILENT, ("jump", s[1]), env.label(s[1]))
    if t == "call":
        return g.new(TEST, ("Call", ()), k, env.label(s[1]))
    if t == "ctrl":
        kw = s[1]
        if kw in FLOW_END:
            if kw == "return" and env.macro_return is not None:
                return g.new(SILENT, ("macro-return",), env.macro_return)
            stop = g.new(STOP, None, None)
            g.set_next(stop, stop)
            # an op that runs in the context set by a preceding lives/object/performer op does not end the flow
            return g.new(ACT, (FLOW_END[kw], ()), k if in_ctx else stop)
        if kw == "break":
            if env.break_target is None:
                raise SemError("break outside case")
            return g.new(SILENT, ("break",), env.break_target)
        if kw == "continue":
            if env.continue_target is None:
                raise SemError("continue outside loop")
            return g.new(SILENT, ("continue",), env.continue_target)
        if kw == "break_loop":
            if env.loop_end is None:
                raise SemError("break_loop outside loop")
            return g.new(SILENT, ("break_loop",), env.loop_end)
        raise ValueError(s)
    name, params = simple_action(s, env)
    return g.new(ACT, (name, params), k)


def _cond_chain(neg: bool, conds: list[tuple], block: int, otherwise: int, env: Env) -> int:
    """tests left to right; positive: any taken -> block, none -> otherwise; negated: any taken -> otherwise"""
    g = env.g
    k = block if neg else otherwise
    for c in reversed(conds):
        name, params = cond_label(c, env)
        k = g.new(TEST, (name, params), k, otherwise if neg else block)
    return k


def stmt(s: tuple, k: int, env: Env) -> int:
    g = env.g
    t = s[0]
    if t in ("op", "label", "jump", "call", "ctrl", "assign", "clear", "init", "reset", "advlog", "dmode", "setscn"):
        return _simple(s, k, env, False)
    if t == "with":
        _, kind, target, inner = s
        n = _simple(inner, k, env, True)
        return g.new(ACT, (CTX_OPS[kind], (env.val(target),)), n)
    if t == "if":
        _, neg, conds, body, elifs, els = s
        after = k
        other = seq(els, after, env) if els is not None else after
        for (eneg, econds, ebody) in reversed(elifs):
            blk = seq(ebody, after, env)
            other = _cond_chain(eneg, econds, blk, other, env)
        blk = seq(body, after, env)
        return _cond_chain(neg, conds, blk, other, env)
    if t == "switch":
        _, header, cases = s
        hname, hparams = switch_header_label(header, env)
        if sum(1 for kh, _b in cases if kh is None) > 1:
            raise SemError("two defaults")
        if cases and len(cases[-1][1]) == 0:
            raise SemError("switch ends in an empty case")
        benv = env.child(break_target=k)
        entries: list[int] = [k] * (len(cases) + 1)
        for i in range(len(cases) - 1, -1, -1):
            body = cases[i][1]
            entries[i] = seq(body, entries[i + 1], benv) if body else entries[i + 1]
        nxt = k
        for i, (kh, _b) in enumerate(cases):
            if kh is None:
                nxt = entries[i]
        for i in range(len(cases) - 1, -1, -1):
            kh = cases[i][0]
            if kh is None:
                continue
            cname, cparams = case_label(kh, env)
            if hname == "SwitchScenario" and cname == "CaseValue":
                cname = "CaseScenario"  # documented normalisation (DESIGN §1.4)
            nxt = g.new(TEST, (cname, cparams), nxt, entries[i])
        return g.new(ACT, (hname, hparams), nxt)
    if t == "msgswitch":
        _, kind, var, cases = s
        if sum(1 for v, _x in cases if v is None) > 1:
            raise SemError("two defaults")
        n = k
        for (v, text) in reversed([c for c in cases if c[0] is None]):
            n = g.new(ACT, ("DefaultText", (env.val(text),)), n)
        for (v, text) in reversed([c for c in cases if c[0] is not None]):
            n = g.new(ACT, ("CaseText", (env.val(v), env.val(text))), n)
        return g.new(ACT, (kind, (env.val(var),)), n)
    if t == "forever":
        head = g.new(SILENT, ("forever",), None)
        lenv = env.child(continue_target=head, loop_end=k)
        g.set_next(head, seq(s[1], head, lenv))
        return head
    if t == "while":
        _, neg, cond, body = s
        head = g.new(SILENT, ("while",), None)
        lenv = env.child(continue_target=head, loop_end=k)
        blk = seq(body, head, lenv)
        name, params = cond_label(cond, env)
        test = g.new(TEST, (name, params), blk if neg else k, k if neg else blk)
        g.set_next(head, test)
        return head
    if t == "for":
        _, init, cond, incr, body = s
        test_head = g.new(SILENT, ("for-test",), None)
        incr_entry = _simple(incr, test_head, env, False)
        lenv = env.child(continue_target=incr_entry, loop_end=k)
        blk = seq(body, incr_entry, lenv)
        name, params = cond_label(cond, env)
        test = g.new(TEST, (name, params), k, blk)
        g.set_next(test_head, test)
        return _simple(init, test_head, env, False)
    if t == "macrocall":
        _, name, args = s
        if name not in env.macros:
            raise SemError(f"unknown macro {name}")
        if env.depth > 12:
            raise SemError("macro recursion")
        _, _mname, params, body = env.macros[name]
        if len(args) < len(params):
            raise SemError("too few macro arguments")
        sub = {p: (env.subst[a[1]] if (env.subst and isinstance(a, tuple) and a[0] == "const" and a[1] in env.subst)
                   else a) for p, a in zip(params, args)}
        menv = Env(g, {}, env.macros)  # labels are private to the expansion
        menv.macro_return = k
        menv.subst = sub
        menv.depth = env.depth + 1
        entry = seq(body, k, menv)
        for lname, node in menv.labels.items():
            if lname not in menv.defined:
                raise SemError(f"macro jumps to undefined label {lname}")
        return entry
    raise ValueError(f"unknown statement {s!r}")


def routine_infos(p: dict[str, Any]) -> list[Any]:
    """(id, kind, target, coroutine name) per routine, in source order"""
    out = []
    rid = -1
    for r in p["routines"]:
        if r[0] == "def":
            out.append((r[1], "GENERIC", 0, None))
        elif r[0] == "coro":
            rid = len(out)
            out.append((len(out), "COROUTINE", 0, r[1]))
        else:
            _, i, kind, target, _b, _legacy = r
            out.append((i, kind.upper(), norm_value(target), None))
    return out


def program_lts(p: dict[str, Any]) -> tuple[Lts, list[int | None]]:
    """one graph for the whole program (labels are file-global); entry node per routine (None for alias)"""
    g = Lts()
    labels: dict[str, int] = {}
    macros = {m[1]: m for m in p.get("macros", [])}
    entries: list[int | None] = []
    envs = []
    for r in p["routines"]:
        body = r[2] if r[0] in ("def", "coro") else r[4]
        if body == "alias":
            entries.append(None)
            continue
        env = Env(g, labels, macros)
        if envs:
            env.defined = envs[0].defined
        envs.append(env)
        stop = g.new(STOP, None, None)
        g.set_next(stop, stop)
        fall_off = g.new(ACT, ("Return", ()), stop)  # running off the end stops the routine like `return`
        entries.append(seq(body, fall_off, env))
    for name, node in labels.items():
        if envs and name not in envs[0].defined:
            raise SemError(f"jump or call to undefined label {name}")
    return g, entries
