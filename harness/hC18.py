"""C18 — the position-mark listing: the real PositionMarkVisitor on stand-in parse trees with symbolic token
positions and symbolic argument digits (Engine X)."""
from __future__ import annotations

from typing import Any

from explorerscript.ssb_converting.compiler.compiler_visitor.position_mark_visitor import PositionMarkVisitor
from explorerscript.ssb_converting.compiler.compile_handlers.atoms.position_marker import PositionMarkerCompileHandler
from explorerscript.ssb_converting.compiler.compile_handlers.atoms.position_marker_arg import PositionMarkerArgCompileHandler
from explorerscript.ssb_converting.compiler.utils import CompilerCtx, Counter
from explorerscript.source_map import SourceMapBuilder
from vlib.hx import verdict, CASE, NATIVE

LAST_DETAIL: Any = None
_c = CASE or 0
SHAPE = _c % 5


class Tok:
    def __init__(self, line: Any, column: Any, text: str = ""):
        self.line, self.column, self.text = line, column, text

    def __str__(self) -> str:
        return self.text


class Term:
    """terminal node"""

    def __init__(self, text: str):
        self.text = text

    def accept(self, v: Any) -> Any:
        return v.visitTerminal(self)

    def __str__(self) -> str:
        return self.text


class Rule:
    """generic rule context: the visitor only uses getChildCount/getChild/accept"""

    def __init__(self, children: list[Any]):
        self.children = children

    def getChildCount(self) -> int:
        return len(self.children)

    def getChild(self, i: int) -> Any:
        return self.children[i]

    def accept(self, v: Any) -> Any:
        return v.visitChildren(self)


class Arg(Rule):
    def __init__(self, text: str, is_decimal: bool):
        super().__init__([Term(text)])
        self._t, self._d = text, is_decimal

    def INTEGER(self) -> Any:
        return None if self._d else Term(self._t)

    def DECIMAL(self) -> Any:
        return Term(self._t) if self._d else None

    def accept(self, v: Any) -> Any:
        return v.visitPosition_marker_arg(self)


class Mark(Rule):
    def __init__(self, name_lit: str, x: Arg, y: Arg, start: Tok, stop: Tok):
        super().__init__([Term("Position"), Term("<"), Term(name_lit), Term(","), x, Term(","), y, Term(">")])
        self._n, self.start, self.stop = name_lit, start, stop

    def STRING_LITERAL(self) -> Any:
        return Term(self._n)

    def accept(self, v: Any) -> Any:
        return v.visitPosition_marker(self)


class Start(Rule):
    def accept(self, v: Any) -> Any:
        return v.visitStart(self)


def _arg(tile: int, half: bool, spell: int) -> Arg:
    """argument spellings: integer; d.5 / d.50; d.0"""
    if half:
        return Arg(f"{tile}.5" if spell % 2 == 0 else f"{tile}.50", True)
    if spell % 2 == 1:
        return Arg(f"{tile}.0", True)
    return Arg(f"{tile}", False)


def _expected(m: Mark) -> Any:
    ctx = CompilerCtx(Counter(), SourceMapBuilder(), {}, Counter(), "n/a", {})
    h = PositionMarkerCompileHandler(m, ctx)  # type: ignore
    h.add(PositionMarkerArgCompileHandler(m.children[4], ctx))
    h.add(PositionMarkerArgCompileHandler(m.children[6], ctx))
    return h.collect()


def h_listing(l0: int, c0: int, l1: int, c1: int, l2: int, c2: int, e0: int, e1: int, e2: int) -> bool:
    """
    pre: 1 <= l0 and 1 <= l1 and 1 <= l2 and 0 <= c0 and 0 <= c1 and 0 <= c2 and 0 <= e0 and 0 <= e1 and 0 <= e2
    post: _
    """
    # argument spellings are concrete here (their parsing is C04-S6's subject); token positions are symbolic
    m0 = Mark("'a'", _arg(3, False, 0), _arg(4, True, 0), Tok(l0, c0), Tok(l0 + e0, c0 + e0))
    m1 = Mark('"b"', _arg(-2, True, 1), _arg(0, False, 0), Tok(l1, c1), Tok(l1, c1 + e1))
    m2 = Mark("'c'", _arg(7, False, 1), _arg(-1, True, 0), Tok(l2, c2), Tok(l2 + e2, e2))
    op = lambda *marks: Rule([Term("op"), Term("("), Rule([Rule([m]) for m in marks]), Term(")")])  # noqa: E731
    if SHAPE == 0:
        tree, want = Start([Rule([op(m0)])]), [m0]
    elif SHAPE == 1:
        tree, want = Start([Rule([op(m0, m1)])]), [m0, m1]
    elif SHAPE == 2:   # nested blocks, macro body and macro-call argument
        tree, want = Start([Rule([Term("macro"), Rule([op(m0)])]), Rule([Rule([Rule([op(m1)]), Term("~m"), Rule([Rule([m2])])])])]), [m0, m1, m2]
    elif SHAPE == 3:   # switch header op and a case body
        tree, want = Start([Rule([Term("switch"), Rule([op(m1)]), Rule([Term("case"), op(m2)]), Rule([op(m0)])])]), [m1, m2, m0]
    else:
        tree, want = Start([Rule([Term("def")])]), []
    got = PositionMarkVisitor().visit(tree)
    ok = len(got) == len(want)
    if ok:
        for g, m in zip(got, want):
            p = _expected(m)
            ok = ok and g.line_number == m.start.line - 1 and g.column_number == m.start.column
            ok = ok and g.end_line_number == m.stop.line - 1 and g.end_column_number == m.stop.column
            ok = ok and g.name == p.name and g.x_offset == p.x_offset and g.y_offset == p.y_offset
            ok = ok and g.x_relative == p.x_relative and g.y_relative == p.y_relative
    return verdict(ok)


# ---- S2: the real visitor on REAL parse trees (every grammar placement), token positions rewritten symbolically --------
REAL_TEMPLATE = """macro m($a) {
    in_m(Position<'mm', 1, 2.5>, $a);
}
def 0 {
    a(Position<'p0', 3, 4>, 5, Position<"p1", -3.5, 0x10>);
    if (BranchExecuteSub(Position<'p2', 0.5, 1>) || $A == 1) {
        b<actor 2>(Position<'p3', 7, 8.50>);
    } elseif not (Check(Position<'p4', 1, 1>)) {
        ~m(Position<'p5', 2.0, 2>);
    } else {
        z();
    }
    while (Cond(Position<'p6', 9, 9>)) { w(); }
    for ($I = 0; F(Position<'p7', 1.5, 1.5>); $I += 1;) { x(); }
    switch (Sw(Position<'p8', 4, 4>)) {
        case 1:
            with (actor 3) { c(Position<
                'p9',
                5,
                -6.5
            >); }
        default:
            d(Position<'p10', 0, 0>); forever { g(Position<'p11', .5, 12>); break_loop; }
    }
}
coro c { e(Position<'p12', -1, -1.5>); }
def 2 for actor X { f(Position<'p13', 1, 2>); }
"""


N_SLICES = 10


def h_real_tree(k: int, dl: int, dc: int) -> bool:
    """
    pre: 0 <= k and dl >= 0 and dc >= 0
    post: _
    """
    from harness import hC01
    from spec.es_sem import pos_arg

    global LAST_DETAIL
    tree, _parser = hC01.parse(REAL_TEMPLATE)
    toks = hC01.tokens_of(tree)
    ntok = len(toks)
    # case split: slice c of N_SLICES covers k in [c*w, (c+1)*w)
    w = (ntok - 1 + N_SLICES - 1) // N_SLICES
    base = (_c % N_SLICES) * w
    if k >= w or base + k >= ntok - 1:
        return True
    kk = base
    for i in range(w):
        if k == i:
            kk = base + i
    hC01.relayout(toks, kk, dl, dc)
    got = PositionMarkVisitor().visit(tree)
    starts = [i for i, t in enumerate(toks) if t.text == "Position"]
    ok = len(got) == len(starts) == 15
    if ok:
        for g, i in zip(got, starts):
            a, b = toks[i], toks[i + 7]
            x, y = pos_arg(toks[i + 4].text), pos_arg(toks[i + 6].text)
            ok = ok and b.text == ">" and g.line_number == a.line - 1 and g.column_number == a.column
            ok = ok and g.end_line_number == b.line - 1 and g.end_column_number == b.column
            ok = ok and g.name == toks[i + 2].text[1:-1]
            ok = ok and (g.x_relative, g.x_offset, g.y_relative, g.y_offset) == (x[0], x[1], y[0], y[1])
    if NATIVE and not ok:
        LAST_DETAIL = {"listed": [(g.name, g.line_number, g.column_number) for g in got], "literals": len(starts)}
    return verdict(ok)


OBLIGATIONS = [
    {"id": "C18.S1", "module": __name__, "func": "h_listing",
     "what": "the real PositionMarkVisitor on stand-in trees: one entry per position_marker node in tree order, start = "
             "(line-1, column) of the first token, end = (line-1, column) of the closing token, name/offsets/tiles equal "
             "to what PositionMarkerCompileHandler.collect() produces for the same node",
     "cases": [0, 1, 2, 3, 4], "timeout": {"quick": 300, "thorough": 900},
     "bounds": "0-3 marks in 5 tree shapes (op argument, two per arglist, macro body + nested block + macro-call argument, "
               "switch header + case body, none); token lines/columns symbolic and unbounded; argument spellings "
               "concrete (n, n.0, n.5, n.50)",
     "encodes": ["explorerscript.ssb_converting.compiler.compiler_visitor.position_mark_visitor.PositionMarkVisitor",
                 "explorerscript.ssb_converting.compiler.compile_handlers.atoms.position_marker.PositionMarkerCompileHandler.collect",
                 "explorerscript.common_syntax.parse_position_marker_arg"],
     "stubs": ["parse tree replaced by duck-typed stand-ins (accept/getChild/getChildCount/start/stop/token accessors); "
               "validated against the real parser by the enumerated part"]},
    {"id": "C18.S2", "module": __name__, "func": "h_real_tree",
     "what": "the real PositionMarkVisitor on the REAL parse tree of a source with 15 Position literals in every grammar "
             "placement (macro body, several per argument list, if / elseif / while / for condition operations, inline "
             "context op, macro-call argument, switch header operation, with-block, literal spread over five lines, "
             "default body, loop body, coroutine, for-actor routine): exactly one entry per literal in source order, "
             "start on the word Position, end on the closing '>', name and tile/half-tile values as the spelling says - "
             "for every re-layout",
     "cases": list(range(N_SLICES)), "timeout": {"quick": 280, "thorough": 900},
     "bounds": "one template; token positions rewritten as if dl line breaks and dc blanks were inserted before token k, "
               "k over every token, dl and dc unbounded non-negative integers; number spellings concrete (n, -n.5, n.50, "
               "n.0, .5, 0x10)",
     "encodes": ["explorerscript.ssb_converting.compiler.compiler_visitor.position_mark_visitor.PositionMarkVisitor",
                 "explorerscript.common_syntax.parse_position_marker_arg"],
     "stubs": ["lexing and parsing of the template run untraced (real ANTLR); token positions rewritten by the harness"]},
    {"id": "C18.S3", "module": "harness.hC04", "func": "h_posmark",
     "what": "the printed form of a mark (what an editor splices into the listed span) reads back as the same mark "
             "(shared harness with C04.S6a)",
     "cases": __import__("harness.hC04", fromlist=["posmark_cases"]).posmark_cases([0, 1]),
     "timeout": {"quick": 240, "thorough": 1200},
     "bounds": "offsets in {0,2}^2 (case split); either |name|<=2 symbolic with fixed tile coordinates, or name fixed "
               "with tile coordinates in [-4,4]^2; names with quotes/backslashes/line breaks and offset 4 are the known "
               "findings recorded under C04 and excluded here",
     "encodes": ["explorerscript.ssb_converting.ssb_data_types.SsbOpParamPositionMarker.__str__",
                 "explorerscript.ssb_converting.ssb_data_types.SsbOpParamPositionMarker.x_final",
                 "explorerscript.common_syntax.parse_position_marker_arg"],
     "stubs": ["Position_marker_argContext replaced by a stand-in classifying the text with spec.tokens"]},
]
