"""C02 — decompiled source denotes the input routines (Engine T per input), C06-E4 totality and C09-E3 share the driver."""
from __future__ import annotations

import copy
from typing import Any

from spec import es_ast, ssb_machine
from spec.families import programs
from vlib import engine_t, trun

PERF = "$PERFORMANCE_PROGRESS_LIST"
DECOMPILE_TIMEOUT = 15
DMODES = ("DMODE_CLOSE", "DMODE_OPEN", "DMODE_REQUEST", "DMODE_OPEN_AND_REQUEST")


def renumber(routine_ops: list[list[Any]]) -> list[list[Any]]:
    """offsets as a binary reader numbers them: increasing through the file; jump targets remapped"""
    from explorerscript.ssb_converting.ssb_data_types import SsbOperation

    mapping: dict[int, int] = {}
    n = 0
    for ops in routine_ops:
        for op in ops:
            mapping[op.offset] = n
            n += 1
    out = []
    for ops in routine_ops:
        new = []
        for op in ops:
            params = list(op.params)
            if op.op_code.name in ssb_machine.JUMP_OPS:
                params[-1] = mapping[params[-1]]
            new.append(SsbOperation(mapping[op.offset], op.op_code, params))
        out.append(new)
    return out


def decompile(routine_infos: list[Any], routine_ops: list[list[Any]], named: list[Any]) -> tuple[str, Any]:
    from explorerscript.ssb_converting.ssb_decompiler import ExplorerScriptSsbDecompiler
    from explorerscript.ssb_converting.ssb_data_types import SsbCoroutine, DungeonModeConstants

    import signal
    import time

    coros = [SsbCoroutine(i, n) for i, n in enumerate(named) if isinstance(n, str)]
    d = ExplorerScriptSsbDecompiler(routine_infos, routine_ops, coros, PERF, DungeonModeConstants(*DMODES))
    # the decompiler gets its own (short) share of the task's time limit: its known failure mode is non-termination
    t0 = time.time()
    prev = signal.alarm(DECOMPILE_TIMEOUT) if signal.getsignal(signal.SIGALRM) not in (signal.SIG_DFL, signal.SIG_IGN, None) else 0
    if 0 < prev < DECOMPILE_TIMEOUT:
        signal.alarm(prev)  # a caller with a tighter limit keeps it
    try:
        return d.convert()
    finally:
        if prev:
            signal.alarm(max(1, int(prev - (time.time() - t0))))


def norm_label(lab: Any) -> Any:
    """normalisations the property allows: dungeon-mode numbers 0..3 <-> configured constants; Branch(x,v) is the
    second spelling of BranchValue(x,==,v); CaseValue == under SwitchScenario is CaseScenario"""
    if not isinstance(lab, tuple) or len(lab) < 3:
        return lab
    kind, name, params = lab
    if name in ("flag_SetDungeonMode",) and len(params) == 2:
        v = params[1]
        if isinstance(v, tuple) and v[0] == "const" and v[1] in DMODES:
            params = (params[0], DMODES.index(v[1]))
    if name == "Case" and len(params) == 1:
        v = params[0]
        if isinstance(v, tuple) and v[0] == "const" and v[1] in DMODES:
            params = (DMODES.index(v[1]),)
    if name == "BranchValue" and len(params) == 3 and params[1] == 2:
        name, params = "Branch", (params[0], params[2])
    if name == "CaseScenario":
        name = "CaseValue"
    return (kind, name, params)


def compare_routine_sets(name: str, infos: list[Any], ops: list[list[Any]], named: list[Any]) -> dict[str, Any]:
    """decompile x, compile the text, decide trace equivalence x ~ compile(decompile(x)) per routine"""
    from harness.pC01 import compile_text

    out: dict[str, Any] = {"status": "ok", "routines": 0, "equal": 0}
    x_ops = copy.deepcopy(ops)
    try:
        text, smap = decompile(copy.deepcopy(infos), copy.deepcopy(ops), named)
    except Exception as e:  # noqa
        import traceback

        tb = traceback.extract_tb(e.__traceback__)
        site = f"{tb[-1].filename.split('/')[-1]}:{tb[-1].name}"
        out.update({"status": "violation", "what": f"decompiler raised {type(e).__name__}: {str(e)[:120]} at {site}",
                    "kind": "raises", "site": site, "exc": type(e).__name__,
                    "witness": {"kind": "raises", "site": site, "exc": type(e).__name__}})
        return out
    out["fallback"] = text.startswith("//?: is-ssb-script: true")
    try:
        c = compile_text(text)
    except Exception as e:  # noqa
        out.update({"status": "violation", "what": f"decompiled text rejected by the compiler: {type(e).__name__}: "
                                                   f"{str(e)[:160]}",
                    "kind": "rejected", "witness": {"kind": "rejected", "text": text[:1500], "exc": type(e).__name__}})
        return out
    want = ssb_machine.infos(infos, named)
    got = ssb_machine.infos(c.routine_infos, c.named_coroutines)
    if want != got:
        out.update({"status": "violation", "what": f"routine table differs: {got} != {want}", "kind": "table",
                    "witness": {"kind": "table", "text": text[:1500]}})
        return out
    stats = engine_t.Stats()
    try:
        ga, ea = ssb_machine.ops_lts(x_ops)
    except ssb_machine.MachineError as e:
        return {"status": "harness_error", "what": f"input not well-formed: {e}"}
    try:
        gb, eb = ssb_machine.ops_lts(c.routine_ops)
    except ssb_machine.MachineError as e:
        out.update({"status": "violation", "what": f"recompiled ops not executable: {e}", "kind": "machine",
                    "witness": {"kind": "machine", "text": text[:1500]}})
        return out
    for i, (a, b) in enumerate(zip(ea, eb)):
        if a is None or b is None:
            if (a is None) != (b is None):
                out.update({"status": "violation", "what": f"routine {i}: empty/alias mismatch", "kind": "alias",
                            "witness": {"kind": "alias", "text": text[:1500]}})
                return out
            continue
        ga.entry, gb.entry = a, b
        out["routines"] += 1
        r = engine_t.equivalent(ga.visible(), gb.visible(), stats, norm=norm_label)
        if r["verdict"] == "equal":
            out["equal"] += 1
        elif r["verdict"] == "differ":
            out.update({"status": "violation", "kind": "trace",
                        "what": f"routine {i}: after outcomes {r['outcomes']} the input performs {r['labels'][0]} but "
                                f"compile(decompile(x)) performs {r['labels'][1]}",
                        "witness": {"kind": "trace", "routine": i, "outcomes": r["outcomes"], "text": text[:2500],
                                    "input_trace": repr(r["trace_a"]), "output_trace": repr(r["trace_b"])}})
            break
        else:
            out.update({"status": "inconclusive", "what": f"routine {i}: {r.get('why')}"})
            break
    if out["status"] == "ok" and not out["fallback"]:
        _spec_leg(out, text, want, ga, ea, stats)
    out["queries"] = {"q1": stats.q1, "q2": stats.q2, "solver_s": stats.solver_s, "states": stats.states,
                      "transitions": stats.transitions, "k_hist": stats.k_hist}
    if out["status"] == "ok":
        out["sample"] = {"decompiled": text[:300], "routines": out["routines"], "fallback": out["fallback"],
                         "verdict": "compile(decompile(x)) ~ x and spec-semantics(decompile(x)) ~ x for all outcomes"}
    return out


def _spec_leg(out: dict[str, Any], text: str, want: Any, ga: Any, ea: list[Any], stats: Any) -> None:
    """second oracle, independent of the compiler's handlers: parse the decompiled text with the real grammar, read the
    tree into the reference AST (spec/es_reader.py), give it the reference semantics (spec/es_sem.py) and decide trace
    equivalence with the input routines. (The SsbScript fallback text is a different language; the first leg covers it.)"""
    from spec import es_reader, es_sem

    try:
        p2 = es_reader.read(text)
        g2, e2 = es_sem.program_lts(p2)
        infos2 = es_sem.routine_infos(p2)
    except Exception as e:  # noqa
        out.update({"status": "inconclusive", "what": f"reference reader/semantics does not cover the decompiled text: "
                                                      f"{type(e).__name__}: {str(e)[:120]}"})
        return
    if infos2 != want:
        out.update({"status": "violation", "what": f"routine table of the decompiled text differs: {infos2} != {want}",
                    "kind": "spec-table", "witness": {"kind": "spec-table", "text": text[:1500]}})
        return
    for i, (a, b) in enumerate(zip(ea, e2)):
        if a is None or b is None:
            if (a is None) != (b is None):
                out.update({"status": "violation", "what": f"routine {i}: empty/alias mismatch (reference reading)",
                            "kind": "spec-alias", "witness": {"kind": "spec-alias", "text": text[:1500]}})
                return
            continue
        ga.entry, g2.entry = a, b
        out["routines"] += 1
        r = engine_t.equivalent(ga.visible(), g2.visible(), stats, norm=norm_label)
        if r["verdict"] == "equal":
            out["equal"] += 1
        elif r["verdict"] == "differ":
            out.update({"status": "violation", "kind": "spec-trace",
                        "what": f"routine {i}: after outcomes {r['outcomes']} the input performs {r['labels'][0]} but the "
                                f"decompiled text, read by the language specification, performs {r['labels'][1]}",
                        "witness": {"kind": "spec-trace", "routine": i, "outcomes": r["outcomes"], "text": text[:2500],
                                    "input_trace": repr(r["trace_a"]), "output_trace": repr(r["trace_b"])}})
            return
        else:
            out.update({"status": "inconclusive", "what": f"routine {i} (reference reading): {r.get('why')}"})
            return


def input_classes(infos: list[Any], ops: list[list[Any]]) -> list[str]:
    """input-level predicates that identify recorded findings (see known_findings.json)"""
    out = []
    if any(r and r[0].op_code.name == "Jump" for r in ops):
        out.append("first-op-jump")
    for r in ops:
        for i, op in enumerate(r):
            nm = op.op_code.name
            if nm == "flag_SetDungeonMode" and len(op.params) == 2 and not isinstance(op.params[1], int):
                out.append("dmode-const")
            if nm == "Call":
                out.append("has-call")
            if nm in ssb_machine.JUMP_OPS and nm not in ("Jump", "Call") and op.params[-1] <= op.offset:
                out.append("backward-branch")
            if nm in ssb_machine.CTX and i + 1 < len(r):
                nx = r[i + 1].op_code.name
                if nx in ssb_machine.JUMP_OPS or nx in ssb_machine.FLOW_END or nx.startswith("flag_") or \
                        nx.startswith("message_Switch") or nx.startswith("Switch"):
                    out.append("ctx-before-special-op")
            if nm in ssb_machine.CTX and i + 1 >= len(r):
                out.append("ctx-last-op")
    # cross-routine jumps and ops unreachable from their routine's first op
    owner: dict[int, int] = {}
    for ri, r in enumerate(ops):
        for op in r:
            owner[op.offset] = ri
    for ri, r in enumerate(ops):
        index = {op.offset: i for i, op in enumerate(r)}
        reach = set()
        todo = [0] if r else []
        while todo:
            i = todo.pop()
            if i in reach or i >= len(r):
                continue
            reach.add(i)
            op = r[i]
            nm = op.op_code.name
            prev_ctx = i > 0 and r[i - 1].op_code.name in ssb_machine.CTX
            if nm in ssb_machine.JUMP_OPS:
                t = op.params[-1]
                if owner.get(t) != ri:
                    out.append("cross-routine-jump")
                elif t in index:
                    todo.append(index[t])
                if nm != "Jump":
                    todo.append(i + 1)
            elif nm in ssb_machine.FLOW_END and not prev_ctx:
                pass
            else:
                todo.append(i + 1)
        if len(reach) < len(r):
            out.append("unreachable-op")
    return sorted(set(out))


def well_formed(ops: list[list[Any]]) -> str | None:
    """C02 precondition: jumps target ops of the set, no cycle of Jump ops only (checked on the machine LTS)"""
    try:
        g, entries = ssb_machine.ops_lts(ops)
    except ssb_machine.MachineError as e:
        return str(e)
    from spec.lts import DIVERGE

    for e in entries:
        if e is None:
            continue
        g.entry = e
        v = g.visible()
        # reachable DIVERGE?
        seen = {v.entry}
        todo = [v.entry]
        while todo:
            s_ = todo.pop()
            for n in (v.nxt[s_], v.taken[s_]):
                if n not in seen:
                    seen.add(n)
                    todo.append(n)
        if any(v.kind[s_] == DIVERGE for s_ in seen):
            return "op-free cycle"
    return None


def task_from_program(name: str, prog: dict[str, Any]) -> dict[str, Any]:
    """F6(a): x = renumbered compiler output of a generated program"""
    from harness.pC01 import compile_text

    try:
        c = compile_text(es_ast.to_text(prog))
    except Exception as e:  # noqa
        return {"status": "rejected", "what": f"{type(e).__name__}"}
    x = renumber(c.routine_ops)
    wf = well_formed(x)
    if wf is not None:
        return {"status": "rejected", "what": "input not well-formed: " + wf}
    r = compare_routine_sets(name, c.routine_infos, x, c.named_coroutines)
    r["program"] = prog
    r["classes"] = input_classes(c.routine_infos, x)
    return r


def replay(name: str, prog_repr: str, witness: Any) -> bool:
    prog = trun.parse_prog(prog_repr)
    return task_from_program(name, prog)["status"] != "violation"


CLASS_PRIORITY = ["first-op-jump", "has-call", "backward-branch", "ctx-before-special-op", "dmode-const", "cross-routine-jump",
                  "unreachable-op"]


def classify(r: dict[str, Any]) -> str | None:
    if r.get("status") == "timeout":
        w = r.get("where") or ""
        if "decompiler/write_handlers" in w or "graph_building" in w or "ssb_decompiler" in w or "ssb_converting/decompiler" in w:
            return "C06-decompiler-nontermination"
        return None
    for c in CLASS_PRIORITY:
        if c in (r.get("classes") or []):
            return "C02-" + c
    return None


def classify_c02(r: dict[str, Any]) -> str | None:
    # `raises` and non-termination are C06's subject; here they make the obligation not constructible and are
    # reported under the same input classes
    return classify(r)


def run(tier: str, seed: int, known: list[dict[str, Any]]) -> dict[str, Any]:
    progs = list(programs(tier, seed))
    return trun.run_family("C02", "C02.E2", task_from_program, progs, known, classify_c02,
                           bounds=f"x = renumbered compiler output of families F1-F4 ({tier}); per routine Q1/Q2 between "
                                  f"x and compile(decompile(x)), K<=512")
