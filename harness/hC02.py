"""C02 solver-decided parts: header / assignment printers of the decompiler against the reference spelling, and the
label resolver, over symbolic integer parameters (Engine X)."""
from __future__ import annotations

from typing import Any

from explorerscript.ssb_converting.ssb_data_types import (SsbOperation, SsbOpCode, SsbOpParamConstant, DungeonModeConstants)
from spec import es_ast, es_sem
from vlib.hx import verdict, CASE, NATIVE

LAST_DETAIL: Any = None
_c = CASE or 0
PERF = "$PERFORMANCE_PROGRESS_LIST"
FORM = _c


class _Dec:
    performance_progress_list_var_name = PERF
    dungeon_mode_constants = DungeonModeConstants("DMODE_CLOSE", "DMODE_OPEN", "DMODE_REQUEST", "DMODE_OPEN_AND_REQUEST")
    indent = 1


class _Self:
    decompiler = _Dec()


def _env() -> Any:
    e = es_sem.Env(es_sem.Lts(), {}, {})
    return e


IF_FORMS = ["Branch", "BranchBit", "BranchDebug", "BranchEdit", "BranchVariation", "BranchPerformance",
            "BranchScenarioNow", "BranchScenarioNowAfter", "BranchScenarioNowBefore", "BranchScenarioAfter",
            "BranchScenarioBefore", "BranchSum", "BranchExecuteSub"]
SCN_OPS = {"BranchScenarioNow": "==", "BranchScenarioNowAfter": ">=", "BranchScenarioNowBefore": "<=",
           "BranchScenarioAfter": ">", "BranchScenarioBefore": "<"}


def h_if_header(a: int, b: int, flag: bool, var_is_const: bool) -> bool:
    """
    pre: 0 <= a <= 11 and 0 <= b <= 1
    post: _
    """
    # the printed condition is the documented spelling of exactly this branch op: reading it back with the reference
    # semantics gives the same opcode and parameters
    from explorerscript.ssb_converting.decompiler.write_handlers.label_jumps.if_start import IfWriteHandler

    name = IF_FORMS[FORM % len(IF_FORMS)]
    var: Any = SsbOpParamConstant("$VAR") if var_is_const else 7
    avar: Any = ("const", "$VAR") if var_is_const else 7
    v01 = 1 if flag else 0
    if name == "Branch":
        params, cond = [var, a], ("c_op", avar, "==", a, False)
    elif name == "BranchBit":
        params, cond = [var, a], ("c_bit", False, avar, a)
    elif name in ("BranchDebug", "BranchEdit", "BranchVariation"):
        kw = {"BranchDebug": "debug", "BranchEdit": "edit", "BranchVariation": "variation"}[name]
        params, cond = [v01], ("c_neg", not flag, kw)
    elif name == "BranchPerformance":
        params, cond = [a, v01], ("c_bit", not flag, ("const", PERF), a)
    elif name in SCN_OPS:
        params, cond = [var, a, b], ("c_scn", avar, SCN_OPS[name], a, b)
    elif name == "BranchSum":
        params, cond = [var, a, b], ("c_operation", ("op", "BranchSum", [avar, a, b], None))
    else:
        params, cond = [a], ("c_operation", ("op", "BranchExecuteSub", [a], None))
    op = SsbOperation(3, SsbOpCode(-1, name), list(params))
    printed = IfWriteHandler._if_header_for(_Self(), op)  # type: ignore
    want_text = es_ast.fmt_cond(cond, {})
    rname, rparams = es_sem.cond_label(cond, _env())
    norm = tuple(("const", p.name) if isinstance(p, SsbOpParamConstant) else p for p in params)
    ok = want_text == printed and rname == name and rparams == norm
    return verdict(ok)


SW_FORMS = ["Switch", "SwitchScenario", "SwitchScenarioLevel", "SwitchRandom", "SwitchDungeonMode", "SwitchSector",
            "ProcessSpecial", "message_Menu"]
CASE_FORMS = ["Case", "CaseMenu2", "Case-dmode"]


def h_switch_header(a: int, b: int, var_is_const: bool) -> bool:
    """
    pre: 0 <= a <= 12 and 0 <= b <= 12
    post: _
    """
    from explorerscript.ssb_converting.decompiler.write_handlers.label_jumps.switch_start import SwitchWriteHandler

    name = SW_FORMS[FORM % len(SW_FORMS)]
    var: Any = SsbOpParamConstant("$VAR") if var_is_const else 7
    avar: Any = ("const", "$VAR") if var_is_const else 7
    if name == "Switch":
        params, h = [var], ("h_var", avar)
    elif name == "SwitchScenario":
        params, h = [var], ("h_scn", avar, 0)
    elif name == "SwitchScenarioLevel":
        params, h = [var], ("h_scn", avar, 1)
    elif name == "SwitchRandom":
        params, h = [a], ("h_random", a)
    elif name == "SwitchDungeonMode":
        params, h = [a], ("h_dmode", a)
    elif name == "SwitchSector":
        params, h = [], ("h_sector",)
    elif name == "ProcessSpecial":
        params, h = [a, var, b], ("h_op", ("op", "ProcessSpecial", [a, avar, b], None))
    else:
        params, h = [a], ("h_op", ("op", "message_Menu", [a], None))
    op = SsbOperation(3, SsbOpCode(-1, name), list(params))
    printed = SwitchWriteHandler._switch_header_for(op)
    rname, rparams = es_sem.switch_header_label(h, _env())
    norm = tuple(("const", p.name) if isinstance(p, SsbOpParamConstant) else p for p in params)
    return verdict(es_ast.fmt_switch_header(h, {}) == printed and rname == name and rparams == norm)


def h_case_header(a: int, var_is_const: bool) -> bool:
    """
    pre: 0 <= a <= 12
    post: _
    """
    from explorerscript.ssb_converting.decompiler.write_handlers.label_jumps.switch_start import SwitchWriteHandler

    form = CASE_FORMS[FORM % len(CASE_FORMS)]
    cv: Any = SsbOpParamConstant("KONST") if var_is_const else a
    acv: Any = ("const", "KONST") if var_is_const else a
    if form == "Case":
        op, k, dm = SsbOperation(3, SsbOpCode(-1, "Case"), [cv]), ("k_val", acv), False
    elif form == "CaseMenu2":
        op, k, dm = SsbOperation(3, SsbOpCode(-1, "CaseMenu2"), [cv]), ("k_menu2", acv), False
    else:
        # under a SwitchDungeonMode header integers 0..3 are printed as the configured constants (allowed by the property)
        if a > 3:
            return verdict(True)
        names = ["DMODE_CLOSE", "DMODE_OPEN", "DMODE_REQUEST", "DMODE_OPEN_AND_REQUEST"]
        op, dm = SsbOperation(3, SsbOpCode(-1, "Case"), [a]), True
        k = ("k_val", ("const", names[a]))
    printed = SwitchWriteHandler._case_header_for(_Self(), op, dm)  # type: ignore
    rname, rparams = es_sem.case_label(k, _env())
    ok = es_ast.fmt_case_header(k, {}) == printed and rname == op.op_code.name
    return verdict(ok)


FLAG_FORMS = ["flag_CalcBit", "flag_Clear", "flag_Initial", "flag_Set", "flag_ResetDungeonResult", "flag_ResetScenario",
              "flag_SetAdventureLog", "flag_SetDungeonMode", "flag_SetPerformance", "flag_SetScenario"]


def h_flag_stmt(a: int, b: int, c: int, var_is_const: bool) -> bool:
    """
    pre: 0 <= a <= 11 and 0 <= b <= 3 and 0 <= c <= 1
    post: _
    """
    from explorerscript.ssb_converting.decompiler.write_handlers.simple_ops.flag import FlagSimpleOpWriteHandler
    from harness.hC09 import _Rec, _V

    name = FLAG_FORMS[FORM % len(FLAG_FORMS)]
    var: Any = SsbOpParamConstant("$VAR") if var_is_const else 7
    avar: Any = ("const", "$VAR") if var_is_const else 7
    dnames = ["DMODE_CLOSE", "DMODE_OPEN", "DMODE_REQUEST", "DMODE_OPEN_AND_REQUEST"]
    table: dict[str, tuple[list[Any], tuple]] = {
        "flag_CalcBit": ([var, a, c], ("assign", avar, a, "=", c, False)),
        "flag_Clear": ([var], ("clear", avar)),
        "flag_Initial": ([var], ("init", avar)),
        "flag_Set": ([var, c], ("assign", avar, None, "=", c, False)),
        "flag_ResetDungeonResult": ([], ("reset", None)),
        "flag_ResetScenario": ([var], ("reset", avar)),
        "flag_SetAdventureLog": ([a], ("advlog", a)),
        "flag_SetDungeonMode": ([a, b], ("dmode", a, ("const", dnames[b]))),
        "flag_SetPerformance": ([a, c], ("assign", ("const", "$P"), a, "=", c, False)),
        "flag_SetScenario": ([var, a, c], ("setscn", avar, a, c)),
    }
    params, stmt = table[name]
    rec = _Rec(0)
    rec.dungeon_mode_constants = _Dec.dungeon_mode_constants
    out: list[str] = []
    rec.write_stmnt = lambda s, line=True: out.append(s)  # type: ignore
    FlagSimpleOpWriteHandler(_V(SsbOperation(3, SsbOpCode(-1, name), list(params))), rec, None).write_content()  # type: ignore
    return verdict(len(out) == 1 and es_ast.fmt_simple(stmt, {}) == out[0])


def h_resolver(g0: int, g1: int, g2: int, t0: int, t1: int, split: bool) -> bool:
    """
    pre: 1 <= g0 <= 3 and 1 <= g1 <= 3 and 1 <= g2 <= 3 and 0 <= t0 <= 2 and 0 <= t1 <= 2
    post: _
    """
    # label resolution: each jump op becomes a label jump whose label is yielded immediately before the target op, in
    # the routine that contains the target; the jump parameter is removed; the input lists are not mutated
    from explorerscript.ssb_converting.decompiler.label_jump_to_resolver import OpsLabelJumpToResolver
    from explorerscript.ssb_converting.ssb_special_ops import SsbLabel, SsbLabelJump

    offs = [g0 - 1, g0 - 1 + g1, g0 - 1 + g1 + g2]
    ops = [SsbOperation(offs[0], SsbOpCode(-1, "Branch"), [SsbOpParamConstant("$V"), 3, offs[t0]]),
           SsbOperation(offs[1], SsbOpCode(-1, "plain"), [5]),
           SsbOperation(offs[2], SsbOpCode(-1, "Jump"), [offs[t1]])]
    routines = [ops[:1], ops[1:]] if split else [ops]
    before = [[(o.offset, o.op_code.name, list(o.params)) for o in r] for r in routines]
    out = list(OpsLabelJumpToResolver([list(r) for r in routines]))
    ok = len(out) == len(routines)
    flat = [o for r in out for o in r]
    real = [o for o in flat if not isinstance(o, SsbLabel)]
    ok = ok and len(real) == 3 and [o.offset for o in real] == offs
    ok = ok and isinstance(real[0], SsbLabelJump) and isinstance(real[2], SsbLabelJump) and not isinstance(real[1], SsbLabelJump)
    if not ok:
        return verdict(False)
    ok = ok and list(real[0].root.params) == [SsbOpParamConstant("$V"), 3] and list(real[2].root.params) == []
    for (jump, ti) in ((real[0], t0), (real[2], t1)):
        lab = jump.label
        # the label is yielded immediately before the op with the target offset
        idx = [i for i, o in enumerate(flat) if o is lab]
        ok = ok and len(idx) == 1
        if ok:
            j = idx[0] + 1
            while j < len(flat) and isinstance(flat[j], SsbLabel):
                j += 1
            ok = ok and j < len(flat) and flat[j].offset == offs[ti]
    ok = ok and [[(o.offset, o.op_code.name, list(o.params)) for o in r] for r in routines] == before
    return verdict(ok)


_SITE = "explorerscript.ssb_converting.decompiler.write_handlers.label_jumps."
OBLIGATIONS = [
    {"id": "C02.S4a", "module": __name__, "func": "h_if_header",
     "what": "if-condition printer: the text printed for a branch op is the documented spelling whose reference reading is "
             "the same opcode with the same parameters (operand order, `not` from the value parameter, scn forms)",
     "cases": list(range(len(IF_FORMS))), "timeout": {"quick": 200, "thorough": 600},
     "bounds": "13 branch opcodes (case split; BranchValue/BranchVariable need SsbOperator(value), which CrossHair cannot "
               "construct - not encoded), integer parameters symbolic in 0..11 (second field 0..1), constant or integer variable",
     "encodes": [_SITE + "if_start.IfWriteHandler._if_header_for"]},
    {"id": "C02.S4b", "module": __name__, "func": "h_switch_header",
     "what": "switch-header printer against the reference spelling/reading",
     "cases": list(range(len(SW_FORMS))), "timeout": {"quick": 200, "thorough": 600},
     "bounds": "8 switch header forms, integer parameters symbolic in 0..12",
     "encodes": [_SITE + "switch_start.SwitchWriteHandler._switch_header_for"]},
    {"id": "C02.S4c", "module": __name__, "func": "h_case_header",
     "what": "case-header printer (Case, CaseMenu2, Case under a dungeon-mode switch) against the reference spelling",
     "cases": list(range(len(CASE_FORMS))), "timeout": {"quick": 200, "thorough": 600},
     "bounds": "3 forms (CaseValue/CaseVariable/CaseScenario need SsbOperator(value): not encoded), value symbolic in 0..12",
     "encodes": [_SITE + "switch_start.SwitchWriteHandler._case_header_for"]},
    {"id": "C02.S4d", "module": __name__, "func": "h_flag_stmt",
     "what": "assignment printer: the statement printed for a flag_* op is the documented spelling of that op",
     "cases": list(range(len(FLAG_FORMS))), "timeout": {"quick": 200, "thorough": 600},
     "bounds": "10 flag opcodes (flag_CalcValue/-Variable need SsbCalcOperator(value): not encoded), integer parameters "
               "symbolic in 0..11 / 0..1, dungeon mode in 0..3",
     "encodes": ["explorerscript.ssb_converting.decompiler.write_handlers.simple_ops.flag.FlagSimpleOpWriteHandler.write_content"]},
    {"id": "C02.S3", "module": __name__, "func": "h_resolver",
     "what": "label resolver: jump ops become label jumps, the label is yielded immediately before the op at the target "
             "offset (own or other routine), the jump parameter is removed, the caller's lists are not mutated",
     "timeout": {"quick": 300, "thorough": 900},
     "bounds": "3 ops (Branch, plain, Jump) in one or two routines (symbolic), offsets with symbolic gaps 0-2, symbolic targets",
     "encodes": ["explorerscript.ssb_converting.decompiler.label_jump_to_resolver.OpsLabelJumpToResolver",
                 "explorerscript.ssb_converting.ssb_special_ops.process_op_for_jump"]},
]
