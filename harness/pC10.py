"""C10 part E4 — statically meaningless programs are rejected with a documented exception type, at every placement;
import/macro graph errors; seeded token-level corruptions (enumerated inputs, each replayed on the public API)."""
from __future__ import annotations

import os
import random
import shutil
import tempfile
from typing import Any, Iterator

from spec import es_ast
from spec.families import programs, op, C
from vlib import trun

DOCUMENTED = ("ParseError", "SsbCompilerError", "ValueError")


def placements(bad: list[tuple], legal_ctx: str) -> Iterator[tuple[str, list[tuple]]]:
    """the offending statement(s) at depth 0-2 inside surrounding constructs that do not make it legal"""
    cond = ("c_neg", False, "debug")
    wrappers = {
        "top": lambda b: b,
        "if": lambda b: [("if", False, [cond], b, [], None)],
        "else": lambda b: [("if", True, [cond], [op("x")], [], b)],
        "elif": lambda b: [("if", False, [cond], [op("x")], [(False, [cond], b)], None)],
        "case": lambda b: [("switch", ("h_var", 1), [(("k_val", 1), b + [op("y")])])],
        "default": lambda b: [("switch", ("h_var", 1), [(None, b + [op("y")])])],
        "forever": lambda b: [("forever", b + [("ctrl", "break_loop")])],
        "while": lambda b: [("while", False, cond, b)],
        "for": lambda b: [("for", op("i"), cond, op("n"), b)],
    }
    skip = {"loop": {"forever", "while", "for"}, "case": {"case", "default"}, "none": set()}[legal_ctx]
    names = [n for n in wrappers if n not in skip]
    for n in names:
        yield n, wrappers[n](bad)
    for n1 in names:
        for n2 in names:
            if n1 != "top" and n2 != "top":
                yield f"{n1}.{n2}", wrappers[n1](wrappers[n2](bad))


def invalid_programs() -> Iterator[tuple[str, Any]]:
    def prog(body: list[tuple], macros: list[tuple] | None = None) -> dict[str, Any]:
        return {"macros": macros or [], "routines": [("def", 0, [op("pre")] + body + [op("post"), ("ctrl", "end")])]}

    rules: list[tuple[str, list[tuple], str]] = [
        ("break-outside-case", [("ctrl", "break")], "case"),
        ("continue-outside-loop", [("ctrl", "continue")], "loop"),
        ("break_loop-outside-loop", [("ctrl", "break_loop")], "loop"),
        ("jump-undefined", [("jump", "nowhere")], "none"),
        ("call-undefined", [("call", "nowhere")], "none"),
        ("switch-ends-empty-case", [("switch", ("h_var", 1), [(("k_val", 1), [op("a")]), (("k_val", 2), [])])], "none"),
        ("switch-only-empty-default", [("switch", ("h_var", 1), [(None, [])])], "none"),
        ("two-defaults", [("switch", ("h_var", 1), [(None, [op("a")]), (("k_val", 1), [op("b")]), (None, [op("c")])])], "none"),
        ("msgswitch-two-defaults", [("msgswitch", "message_SwitchTalk", 1, [(None, ("str", "a")), (None, ("str", "b"))])], "none"),
        ("not-on-ordinary-bit", [("if", False, [("c_bit", True, C("$BITS"), 1)], [op("a")], [], None)], "none"),
        ("not-on-ordinary-bit-while", [("while", False, ("c_bit", True, C("$BITS"), 1), [op("a")])], "none"),
        ("unknown-macro", [("macrocall", "nope", [])], "none"),
        ("op-as-condition", [("if", False, [("c_operation", op("foo", 1))], [op("a")], [], None)], "none"),
        ("scn-bad-operator", [("if", False, [("c_scn", C("$S"), "!=", 1, 2)], [op("a")], [], None)], "none"),
    ]
    cond = ("c_neg", False, "debug")
    closed_before: dict[str, list[tuple]] = {
        "after-forever": [("forever", [op("l"), ("ctrl", "break_loop")])],
        "after-while": [("while", False, cond, [op("l")])],
        "after-while-not": [("while", True, cond, [op("l")])],
        "after-for": [("for", op("i"), cond, op("n"), [op("l")])],
        "after-switch": [("switch", ("h_var", 1), [(("k_val", 1), [op("l"), ("ctrl", "break")]), (None, [op("d")])])],
        "after-if": [("if", True, [cond], [op("l")], [(False, [cond], [op("m")])], [op("e")])],
    }
    for rname, bad, legal in rules:
        for pname, body in placements(bad, legal):
            yield f"C10.{rname}.{pname}", ("expect-reject", prog(body))
        # the same offending statement AFTER a construct of the legal kind has been closed (same routine, earlier
        # routine, earlier macro): the construct must not stay open
        for hname, before in closed_before.items():
            yield f"C10.{rname}.{hname}", ("expect-reject", prog(before + bad))
            yield (f"C10.{rname}.{hname}.routine",
                   ("expect-reject", {"macros": [], "routines": [("def", 0, before + [("ctrl", "end")]),
                                                                 ("def", 1, bad + [("ctrl", "end")])]}))
            yield (f"C10.{rname}.{hname}.macro",
                   ("expect-reject", {"macros": [("macro", "mm", [], before)],
                                      "routines": [("def", 0, [("macrocall", "mm", [])] + bad + [("ctrl", "end")])]}))
    # macros
    mac = ("macro", "m", ["$a", "$b"], [op("x", C("$a"), C("$b"))])
    yield "C10.macro-too-few-args", ("expect-reject", prog([("macrocall", "m", [1])], [mac]))
    yield "C10.macro-recursive", ("expect-reject", prog([("macrocall", "r", [])], [("macro", "r", [], [("macrocall", "r", [])])]))
    yield "C10.macro-mutual", ("expect-reject", prog([("macrocall", "r", [])], [("macro", "r", [], [("macrocall", "q", [])]),
                                                                               ("macro", "q", [], [("macrocall", "r", [])])]))
    # every digraph with a cycle on <= 3 macros (self-loops, 2- and 3-cycles, with acyclic helpers called from or calling into
    # the cycle) x every definition order: recursion must be rejected with a documented exception, wherever the helper sits
    import itertools

    names = ["ca", "cb", "cc"]
    for n in (1, 2, 3):
        pairs = [(i, j) for i in range(n) for j in range(n)]
        for mask in range(1, 1 << len(pairs)):
            edges = [pairs[k] for k in range(len(pairs)) if mask >> k & 1]
            reach = {i: {j for (a, j) in edges if a == i} for i in range(n)}
            for _ in range(n):
                for i in range(n):
                    for j in list(reach[i]):
                        reach[i] |= reach[j]
            if not any(i in reach[i] for i in range(n)):
                continue
            ms = [("macro", names[i], [], [op(f"in_{names[i]}")] + [("macrocall", names[j], []) for (a, j) in edges if a == i])
                  for i in range(n)]
            for oi, order in enumerate(itertools.permutations(range(n))):
                yield (f"C10.macro-cycle.{n}.{mask}.o{oi}",
                       ("expect-reject", prog([("macrocall", names[i], []) for i in range(n)], [ms[i] for i in order])))
    yield "C10.macro-break-in-macro", ("expect-reject", prog([("macrocall", "b", [])], [("macro", "b", [], [("ctrl", "break")])]))
    # raw texts the AST printer cannot produce
    raws = {
        "with-label": "def 0 { with (actor 1) { @l; } }",
        "msgswitch-statements": "def 0 { message_SwitchTalk(1) { case 1: a(); } end; }",
        "switch-string-case": 'def 0 { switch (1) { case 1: "x" } end; }',
        "msgswitch-menu-case": 'def 0 { message_SwitchTalk(1) { case menu("x"): "s" } end; }',
        "routine-order": "def 1 { a(); end; } def 0 { b(); end; }",
        "label-only": "def 0 { @l; }",
        "marker-only": "//?: is-ssb-script: true",
        "empty": "",
        "with-inline-ctx": "def 0 { with (actor 1) { a<actor 2>(); } }",
        "scn-index-2": "def 0 { switch (scn($S)[2]) { case 1: a(); } }",
        "bad-with-kind": "def 0 { with (thing 1) { a(); } }",
        "position-bad-fraction": "def 0 { a(Position<'m', 1.25, 2>); }",
        "macro-alias": "macro m() { alias previous; } def 0 { ~m(); }",
        "value-with-index": "def 0 { $V[1] = value($W); }",
        "for-label-init": "def 0 { for (@l; debug; a();) { b(); } end; }",
        "dup-routine": "def 0 { a(); end; } def 0 { b(); end; }",
        "coro-and-def": "coro A { a(); end; } def 0 { b(); end; }",
        "label-twice": "def 0 { @l; a(); @l; b(); jump @l; }",
        "int-overflowish": "def 0 { a(0x, 1); }",
    }
    for k, v in raws.items():
        yield f"C10.raw.{k}", ("any-documented", v)
    # import graphs
    yield "C10.import-missing", ("expect-reject-files", {"main": 'import "./nothere.exps"; def 0 { end; }', "files": {}})
    yield "C10.import-missing-lookup", ("expect-reject-files", {"main": 'import "nothere.exps"; def 0 { end; }', "files": {}})
    yield "C10.import-dots-in-lookup", ("expect-reject-files", {"main": 'import "a/../b.exps"; def 0 { end; }', "files": {"b.exps": ""}})
    yield "C10.import-cycle", ("expect-reject-files", {"main": 'import "./a.exps"; def 0 { end; }',
                                                        "files": {"a.exps": 'import "./b.exps"; macro x() { a(); }',
                                                                  "b.exps": 'import "./a.exps"; macro y() { b(); }'}})
    yield "C10.import-self", ("expect-reject-files", {"main": 'import "./main.exps"; def 0 { end; }', "files": {}})
    yield "C10.import-with-routines", ("expect-reject-files", {"main": 'import "./a.exps"; def 0 { end; }',
                                                                 "files": {"a.exps": "def 0 { a(); }"}})


def corruptions(seed: int, n: int) -> Iterator[tuple[str, Any]]:
    """seeded token-level corruptions of valid program texts (delete / duplicate / swap / replace a token)"""
    rng = random.Random(seed * 7 + 3)
    base = [es_ast.to_text(p) for _n, p in list(programs("quick", seed))[::40]]
    toks = ["{", "}", "(", ")", ";", ":", ",", "@", "§", "case", "default", "else", "elseif", "if", "not", "||", "0x",
            "'", '"', "<", ">", "[", "]", "~m", "$", "alias previous;", "def 3", "coro", "macro q()", "import", "1.5.5",
            "\\", "/*", "//?: is-ssb-script: 1\n", "message_SwitchTalk", "with", "for", "jump", "call", "break", "value("]
    for i in range(n):
        t = rng.choice(base)
        parts = t.split(" ")
        k = rng.randrange(len(parts))
        mode = rng.randrange(5)
        if mode == 0:
            del parts[k]
        elif mode == 1:
            parts.insert(k, parts[k])
        elif mode == 2 and k + 1 < len(parts):
            parts[k], parts[k + 1] = parts[k + 1], parts[k]
        elif mode == 3:
            parts[k] = rng.choice(toks)
        else:
            parts.insert(k, rng.choice(toks))
        yield f"C10.corrupt.{seed}.{i}", ("any-documented", " ".join(parts))


def task(name: str, item: Any) -> dict[str, Any]:
    from harness.pC01 import compile_text

    mode, payload = item
    d = None
    try:
        if mode == "expect-reject-files":
            d = tempfile.mkdtemp(prefix="verif_c10_")
            for rel, txt in payload["files"].items():
                with open(os.path.join(d, rel), "w", encoding="utf-8") as fh:
                    fh.write(txt)
            text = payload["main"]
            with open(os.path.join(d, "main.exps"), "w", encoding="utf-8") as fh:
                fh.write(text)
            fname = os.path.join(d, "main.exps")
        else:
            text = payload if isinstance(payload, str) else es_ast.to_text(payload)
            fname = "/dev/null"
        try:
            c = compile_text(text, fname)
        except Exception as e:  # noqa
            tn = type(e).__name__
            if tn in DOCUMENTED:
                return {"status": "ok", "routines": 1, "equal": 1,
                        "sample": {"input": text[:160], "outcome": f"{tn}: {str(e)[:80]}"}}
            import traceback

            tb = traceback.extract_tb(e.__traceback__)
            site = f"{tb[-1].filename.split('/')[-1]}:{tb[-1].name}"
            return {"status": "violation", "kind": "undocumented-exception", "exc": tn, "site": site, "program": item,
                    "what": f"compile() raised {tn} ({str(e)[:80]}) at {site}; only ParseError, SsbCompilerError and "
                            f"ValueError are documented", "witness": {"text": text[:600], "exc": tn, "site": site}}
        if mode.startswith("expect-reject"):
            return {"status": "violation", "kind": "accepted", "program": item,
                    "what": "statically meaningless program accepted: " + name,
                    "witness": {"text": text[:600], "ops": repr(c.routine_ops)[:300]}}
        return {"status": "ok", "routines": 1, "equal": 1, "sample": {"input": text[:160], "outcome": "compiled"}}
    finally:
        if d:
            shutil.rmtree(d, ignore_errors=True)


def replay(name: str, item_repr: str, witness: Any) -> bool:
    return task(name, trun.parse_prog(item_repr))["status"] != "violation"


def classify(r: dict[str, Any]) -> str | None:
    return None


def run(tier: str, seed: int, known: list[dict[str, Any]]) -> dict[str, Any]:
    items = list(invalid_programs()) + list(corruptions(seed, 600 if tier == "quick" else 20000))
    r = trun.run_family("C10", "C10.E4", task, items, known, classify,
                        bounds="every rejection rule of the property at depth 0-2 placements, macro/import graph errors, "
                               "seeded token corruptions")
    r["headline"] = (f"{r['programs']} inputs: {r['discharged']} rejected with a documented type or compiled, "
                     f"{r['disagreements_checked']} violations (undocumented exception type or meaningless program accepted)")
    return r
