"""C05 part E1/E3 — macro expansion == inlining, for every definition order and file layout (Engine T)."""
from __future__ import annotations

import os
import shutil
import tempfile
from typing import Any

from spec import es_ast
from spec.families import f5_macros
from vlib import trun
from harness import pC01


def all_macros(p: dict[str, Any]) -> list[tuple]:
    """macros of the file and of everything it imports (transitively), as the specification merges them"""
    out = list(p.get("macros", []))
    files = p.get("files", {})
    for rel, f in files.items():
        if "imported" in p and rel not in p["imported"]:
            continue  # a file that exists but must not be the one the import resolves to
        out += f.get("macros", [])
    return out


def task(name: str, prog: dict[str, Any]) -> dict[str, Any]:
    d = tempfile.mkdtemp(prefix="verif_c05_")
    try:
        main = os.path.join(d, "main.exps")
        for rel, sub in prog.get("files", {}).items():
            path = os.path.join(d, rel)
            os.makedirs(os.path.dirname(path), exist_ok=True)
            with open(path, "w", encoding="utf-8") as fh:
                fh.write(es_ast.to_text({"imports": sub.get("imports", []), "macros": sub.get("macros", []), "routines": []}))
        text = es_ast.to_text({"imports": prog.get("imports", []), "macros": prog.get("macros", []),
                               "routines": prog["routines"]})
        with open(main, "w", encoding="utf-8") as fh:
            fh.write(text)
        try:
            compiled = pC01.compile_text(text, main, [os.path.join(d, x) for x in prog.get("lookup", [])])
        except Exception as e:  # noqa
            # C05: every acyclic set of macro definitions compiles regardless of the order they are written in
            return {"status": "violation", "kind": "rejected", "program": prog,
                    "what": f"acyclic macro program rejected: {type(e).__name__}: {str(e)[:150]}",
                    "witness": {"kind": "rejected", "text": text, "exc": type(e).__name__, "msg": str(e)[:200]}}
        merged = {"macros": all_macros(prog), "routines": prog["routines"]}
        r = pC01.compare_program(name, merged, text=text, compiled=compiled)
        r["program"] = prog
        return r
    finally:
        shutil.rmtree(d, ignore_errors=True)


def replay(name: str, prog_repr: str, witness: Any) -> bool:
    return task(name, trun.parse_prog(prog_repr))["status"] != "violation"


def classify(r: dict[str, Any]) -> str | None:
    return None


def run(tier: str, seed: int, known: list[dict[str, Any]]) -> dict[str, Any]:
    progs = list(f5_macros(tier, seed))
    return trun.run_family("C05", "C05.E1", task, progs, known, classify,
                           bounds=f"F5: all labelled DAGs on <=3/4 macros x all definition orders x call orders, same-file "
                                  f"and imported layouts ({tier}); expansion vs inlined reference semantics, Q1/Q2")
