"""C06 part E4 — the decompiler always answers; a fallback answer is marked and exact (enumerated inputs F6)."""
from __future__ import annotations

import copy
from typing import Any

from spec import es_ast, ssb_machine
from spec.families import programs, f6_raw, build_raw
from vlib import trun
from harness import pC02

MARKER = "//?: is-ssb-script: true"


def ops_equal_up_to_offsets(a: list[list[Any]], b: list[list[Any]]) -> str | None:
    """op for op: same routines, opcodes, parameters, and every jump parameter denotes the op at the same position"""
    if len(a) != len(b):
        return f"{len(b)} routines instead of {len(a)}"
    pos_a = {op.offset: (ri, i) for ri, r in enumerate(a) for i, op in enumerate(r)}
    pos_b = {op.offset: (ri, i) for ri, r in enumerate(b) for i, op in enumerate(r)}
    for ri, (ra, rb) in enumerate(zip(a, b)):
        if len(ra) != len(rb):
            return f"routine {ri}: {len(rb)} ops instead of {len(ra)}"
        for i, (x, y) in enumerate(zip(ra, rb)):
            if x.op_code.name != y.op_code.name:
                return f"routine {ri} op {i}: {y.op_code.name} instead of {x.op_code.name}"
            px, py = list(x.params), list(y.params)
            if x.op_code.name in ssb_machine.JUMP_OPS:
                if pos_a.get(px[-1]) != pos_b.get(py[-1]):
                    return f"routine {ri} op {i}: jump target denotes op {pos_b.get(py[-1])} instead of {pos_a.get(px[-1])}"
                px, py = px[:-1], py[:-1]
            if [ssb_machine.norm_param(p) for p in px] != [ssb_machine.norm_param(p) for p in py]:
                return f"routine {ri} op {i}: parameters {py} instead of {px}"
    return None


def check_input(name: str, infos: list[Any], ops: list[list[Any]], named: list[Any]) -> dict[str, Any]:
    from harness.pC01 import compile_text

    out: dict[str, Any] = {"status": "ok", "routines": len(ops), "equal": 0}
    try:
        text, smap = pC02.decompile(copy.deepcopy(infos), copy.deepcopy(ops), named)
    except Exception as e:  # noqa
        import traceback

        tb = traceback.extract_tb(e.__traceback__)
        site = f"{tb[-1].filename.split('/')[-1]}:{tb[-1].name}"
        out.update({"status": "violation", "kind": "raises", "site": site, "exc": type(e).__name__,
                    "what": f"decompiler raised {type(e).__name__}: {str(e)[:120]} at {site} instead of answering",
                    "witness": {"kind": "raises", "site": site, "exc": type(e).__name__}})
        return out
    if not isinstance(text, str) or smap is None:
        out.update({"status": "violation", "kind": "result", "what": "convert() did not return (text, source map)",
                    "witness": {"kind": "result"}})
        return out
    out["equal"] = len(ops)
    out["fallback"] = text.startswith(MARKER)
    if out["fallback"]:
        # replay path of S1: the fallback text compiles back op for op
        try:
            c = compile_text(text)
            diff = ops_equal_up_to_offsets(ops, c.routine_ops)
        except Exception as e:  # noqa
            diff = f"fallback text rejected: {type(e).__name__}: {str(e)[:100]}"
        if diff is not None:
            out.update({"status": "violation", "kind": "fallback-inexact", "what": "fallback not exact: " + diff,
                        "witness": {"kind": "fallback-inexact", "text": text[:1500]}})
            return out
    if not out["fallback"]:
        # forced fallback: the structuring passes run for real (and mutate what they are given), then the writer fails;
        # the fallback answer must still be the INPUT, op for op (the backup copy is taken early and deep enough)
        diff = _forced_fallback(infos, ops, named)
        if diff is not None:
            out.update({"status": "violation", "kind": "forced-fallback-inexact",
                        "what": "after a failure in the writer the fallback answer is not the input: " + diff,
                        "witness": {"kind": "forced-fallback-inexact"}})
            return out
        out["equal"] += len(ops)
    out["sample"] = {"input_ops": sum(len(r) for r in ops), "fallback": out["fallback"], "answer": text[:200]}
    return out


def _forced_fallback(infos: list[Any], ops: list[list[Any]], named: list[Any]) -> str | None:
    import explorerscript.ssb_converting.ssb_decompiler as D
    from harness.pC01 import compile_text

    class W:
        def __init__(self, *a: Any, **k: Any) -> None:
            pass

        def write_content(self) -> None:
            raise AssertionError("forced by the harness: the writer gives up")

    orig = D.RoutineWriteHandler
    D.RoutineWriteHandler = W  # type: ignore
    try:
        try:
            text, smap = pC02.decompile(copy.deepcopy(infos), copy.deepcopy(ops), named)
        except Exception as e:  # noqa
            return f"convert() raised {type(e).__name__}: {str(e)[:100]}"
    finally:
        D.RoutineWriteHandler = orig  # type: ignore
    if not text.startswith(MARKER):
        return "answer without the marker line"
    try:
        c = compile_text(text)
    except Exception as e:  # noqa
        return f"fallback text rejected: {type(e).__name__}: {str(e)[:100]}"
    return ops_equal_up_to_offsets(ops, c.routine_ops)


def task(name: str, item: Any) -> dict[str, Any]:
    from harness.pC01 import compile_text

    if isinstance(item, tuple) and item and item[0] == "raw":
        infos, ops, named = build_raw(item)
    else:
        try:
            c = compile_text(es_ast.to_text(item))
        except Exception as e:  # noqa
            return {"status": "rejected", "what": type(e).__name__}
        infos, ops, named = c.routine_infos, pC02.renumber(c.routine_ops), c.named_coroutines
    wf = pC02.well_formed(ops)
    if wf is not None:
        return {"status": "rejected", "what": "input not well-formed: " + wf}
    r = check_input(name, infos, ops, named)
    r["program"] = item
    r["classes"] = pC02.input_classes(infos, ops)
    return r


def replay(name: str, prog_repr: str, witness: Any) -> bool:
    item = trun.parse_prog(prog_repr)
    return task(name, item)["status"] != "violation"


def run(tier: str, seed: int, known: list[dict[str, Any]]) -> dict[str, Any]:
    items: list[tuple[str, Any]] = list(programs(tier, seed))
    items += list(f6_raw(seed, 400 if tier == "quick" else 8000, 6 if tier == "quick" else 8))
    return trun.run_family("C06", "C06.E4", task, items, known, pC02.classify,
                           bounds=f"F6 = renumbered compiler output of F1-F4 + seeded raw well-formed op lists ({tier})")
