"""C11 — results depend only on the input: havoc lemmas (state surviving between calls is arbitrary), no input
mutation, CLI reader numbering."""
from __future__ import annotations

import copy
from typing import Any

from explorerscript.ssb_converting.ssb_data_types import (SsbOperation, SsbOpCode, SsbRoutineInfo, SsbRoutineType,
                                                         SsbOpParamConstant, SsbOpParamConstString,
                                                         SsbOpParamLanguageString, DungeonModeConstants)
from vlib.hx import verdict, CASE, NATIVE

LAST_DETAIL: Any = None
_c = CASE or 0

SOURCES = [
    "def 0 { a(1); if (debug) { b(); } else { c('x'); } switch ($V) { case 1: d(); break; default: e(); } end; }",
    "macro m($p) { x($p); return; } def 0 { ~m(3); forever { y(); break_loop; } hold; } def 1 for actor A { alias previous; }",
    "def 0 { @l; while (not edit) { z(); continue; } jump @l; }",
]
SRC = SOURCES[_c % 3]


def _compile_result(c: Any) -> Any:
    from spec.ssb_machine import norm_param

    ops = [[(op.offset, op.op_code.name, [norm_param(p) for p in op.params]) for op in r] for r in c.routine_ops]
    infos = [(i.type.name, i.linked_to, i.linked_to_name) if i is not None else None for i in c.routine_infos]
    return ops, infos, list(c.named_coroutines), c.source_map.serialize(), list(c.imports), sorted(c.macros.keys())


def _fresh_compile() -> Any:
    from explorerscript.ssb_converting.ssb_compiler import ExplorerScriptSsbCompiler

    c = ExplorerScriptSsbCompiler("$P")
    c.compile(SRC, "/x/y.exps")
    return _compile_result(c)


BASE_COMPILE = _fresh_compile()  # at import time, untraced


def h_compile_havoc(i1: int, s1: str, s2: str, b1: bool, b2: bool, b3: bool) -> bool:
    """
    pre: len(s1) <= 2 and len(s2) <= 2
    post: _
    """
    # a reused compiler object whose every surviving attribute holds an arbitrary stale value
    from explorerscript.ssb_converting.ssb_compiler import ExplorerScriptSsbCompiler
    from crosshair.tracers import NoTracing

    c = ExplorerScriptSsbCompiler("$P")
    c.routine_infos = [SsbRoutineInfo(SsbRoutineType.ACTOR, i1)] if b1 else None
    c.routine_ops = [[SsbOperation(i1, SsbOpCode(-1, s1), [i1])]] if b2 else None
    c.named_coroutines = [s1, s2] if b3 else None
    c.source_map = None
    c.imports = [s1] if b1 else []
    c.macros = {"stale": None} if b2 else {}  # type: ignore
    c.macro_resolution_order = [s1, s2] if b3 else []
    c.compile(SRC, "/x/y.exps")
    return verdict(_compile_result(c) == BASE_COMPILE)


def _routine_set(indent0: int) -> tuple[list[Any], list[list[Any]], list[Any]]:
    p1 = SsbOpParamConstString("one\ntwo")
    p1.indent = indent0
    p2 = SsbOpParamLanguageString({"english": "a\nb"})
    p2.indent = indent0
    if _c % 4 == 0:
        ops = [[SsbOperation(0, SsbOpCode(-1, "say"), [p1, 3]), SsbOperation(1, SsbOpCode(-1, "BranchDebug"), [1, 4]),
                SsbOperation(2, SsbOpCode(-1, "tell"), [p2]), SsbOperation(3, SsbOpCode(-1, "End"), []),
                SsbOperation(4, SsbOpCode(-1, "other"), []), SsbOperation(5, SsbOpCode(-1, "End"), [])]]
    elif _c % 4 == 1:
        ops = [[SsbOperation(0, SsbOpCode(-1, "Switch"), [SsbOpParamConstant("$V")]), SsbOperation(1, SsbOpCode(-1, "Case"), [1, 4]),
                SsbOperation(2, SsbOpCode(-1, "Case"), [2, 6]), SsbOperation(3, SsbOpCode(-1, "Jump"), [7]),
                SsbOperation(4, SsbOpCode(-1, "say"), [p1]), SsbOperation(5, SsbOpCode(-1, "Jump"), [7]),
                SsbOperation(6, SsbOpCode(-1, "tell"), [p2]), SsbOperation(7, SsbOpCode(-1, "End"), [])]]
    elif _c % 4 == 3:
        # a loop whose continue/break is reached from outside the loop (the writers consult the forever-handler stack)
        ops = [[SsbOperation(0, SsbOpCode(-1, "Jump"), [2]), SsbOperation(1, SsbOpCode(-1, "Null1"), []),
                SsbOperation(2, SsbOpCode(-1, "BranchDebug"), [0, 1]), SsbOperation(3, SsbOpCode(-1, "Return"), []),
                SsbOperation(4, SsbOpCode(-1, "Return"), [])]]
    else:
        ops = [[SsbOperation(0, SsbOpCode(-1, "a"), []), SsbOperation(1, SsbOpCode(-1, "say"), [p1]),
                SsbOperation(2, SsbOpCode(-1, "BranchEdit"), [0, 4]), SsbOperation(3, SsbOpCode(-1, "Jump"), [0]),
                SsbOperation(4, SsbOpCode(-1, "Hold"), [])]]
    return [SsbRoutineInfo(SsbRoutineType.GENERIC, 0)], ops, []


def _fresh_convert() -> Any:
    from explorerscript.ssb_converting.ssb_decompiler import ExplorerScriptSsbDecompiler

    infos, ops, coros = _routine_set(0)
    d = ExplorerScriptSsbDecompiler(infos, ops, coros, "$P", DungeonModeConstants("c", "o", "r", "x"))
    text, sm = d.convert()
    return text, sm.serialize()


BASE_CONVERT = _fresh_convert()


def h_convert_havoc(out: str, indent: int, line: int, indent0: int, lab: int, b1: bool) -> bool:
    """
    pre: len(out) <= 2 and 0 <= indent0 <= 3
    post: _
    """
    # a decompiler object whose surviving attributes (and the indent field of the caller's parameter objects)
    # hold arbitrary stale values; class-level lists as an earlier instance may have left them
    from explorerscript.ssb_converting.ssb_decompiler import ExplorerScriptSsbDecompiler
    from explorerscript.source_map import SourceMapBuilder

    infos, ops, coros = _routine_set(indent0)
    # class-level lists as an earlier (possibly aborted) conversion of another object may have left them
    ExplorerScriptSsbDecompiler.forever_start_handler_stack = [object()] if b1 else []  # type: ignore
    ExplorerScriptSsbDecompiler.labels_already_printed = [lab]
    d = ExplorerScriptSsbDecompiler(infos, ops, coros, "$P", DungeonModeConstants("c", "o", "r", "x"))
    d._output = out
    d.indent = indent
    d._line_number = line
    d.labels_already_printed = [lab] if b1 else []
    d.smb = SourceMapBuilder().add_opcode(77, line, indent) if b1 else None  # type: ignore
    try:
        text, sm = d.convert()
    finally:
        ExplorerScriptSsbDecompiler.labels_already_printed = []
        ExplorerScriptSsbDecompiler.forever_start_handler_stack = []
    return verdict((text, sm.serialize()) == BASE_CONVERT)


def h_no_input_mutation(indent0: int) -> bool:
    """
    pre: 0 <= indent0 <= 3
    post: _
    """
    # decompilation does not alter the meaning of the routine set it was given
    from explorerscript.ssb_converting.ssb_decompiler import ExplorerScriptSsbDecompiler

    infos, ops, coros = _routine_set(indent0)
    before = [[(op.offset, op.op_code.name, list(op.params)) for op in r] for r in ops]
    routine_lists = [r for r in ops]
    d = ExplorerScriptSsbDecompiler(infos, ops, coros, "$P", DungeonModeConstants("c", "o", "r", "x"))
    d.convert()
    ok = len(ops) == len(before)
    for r, rb, rl in zip(ops, before, routine_lists):
        ok = ok and r is rl and len(r) == len(rb)
        for op, (off, nm, ps) in zip(r, rb):
            ok = ok and op.offset == off and op.op_code.name == nm and len(op.params) == len(ps)
            for p, q in zip(op.params, ps):
                ok = ok and p is q
    return verdict(ok)


def h_cli_reader_repeatable(n: int, k: int) -> bool:
    """
    pre: 1 <= n <= 3 and 0 <= k <= 2
    post: _
    """
    # reading the same document again (k reads before) numbers the ops the same way
    import explorerscript.cli.decompile as cd

    doc = [{"type": "GENERIC", "ops": [{"opcode": "a", "params": []} for _ in range(n)]},
           {"type": "GENERIC", "ops": [{"opcode": "Jump", "params": [1]}]}]
    for _ in range(k):
        cd.read_routines(copy.deepcopy(doc))  # type: ignore
    _i, _c2, ops = cd.read_routines(copy.deepcopy(doc))  # type: ignore
    flat = [op.offset for r in ops for op in r]
    return verdict(flat == list(range(1, n + 2)))


OBLIGATIONS = [
    {"id": "C11.S1a", "module": __name__, "func": "h_compile_havoc",
     "what": "compile() on a reused compiler object whose surviving attributes hold arbitrary stale values gives the ops, "
             "tables, source map, imports and macros of a fresh object",
     "cases": [0, 1, 2], "timeout": {"quick": 300, "thorough": 900},
     "bounds": "3 source programs (case split: if/switch; macro + loop + alias; while/label), stale ints/strings symbolic "
               "(|s| <= 2), presence flags symbolic",
     "encodes": ["explorerscript.ssb_converting.ssb_compiler.ExplorerScriptSsbCompiler.compile"],
     "stubs": ["ANTLR and the visitors run on the concrete source inside the traced run"]},
    {"id": "C11.S1b", "module": __name__, "func": "h_convert_havoc",
     "what": "convert() with arbitrary stale _output / indent / _line_number / labels_already_printed / smb, stale class "
             "level list, and arbitrary initial indent on the caller's string parameters gives the fresh text and map",
     "cases": [0, 1, 2, 3], "timeout": {"quick": 300, "thorough": 900},
     "bounds": "4 routine sets (if/else with multi-line strings; switch; loop; loop entered by a jump), stale values symbolic, "
               "class-level labels_already_printed / forever_start_handler_stack pre-filled",
     "encodes": ["explorerscript.ssb_converting.ssb_decompiler.ExplorerScriptSsbDecompiler.convert"],
     "stubs": ["igraph runs concretely underneath"]},
    {"id": "C11.S3", "module": __name__, "func": "h_no_input_mutation",
     "what": "after convert() the caller's routine lists hold the same op objects with the same offsets, opcodes and "
             "parameter objects",
     "cases": [0, 1, 2, 3], "timeout": {"quick": 300, "thorough": 900}, "bounds": "4 routine sets, initial indent 0..3",
     "encodes": ["explorerscript.ssb_converting.ssb_decompiler.ExplorerScriptSsbDecompiler.convert"]},
    {"id": "C11.S4", "module": __name__, "func": "h_cli_reader_repeatable",
     "what": "the decompile CLI's reader numbers ops 1..n whatever was read before in the same process",
     "timeout": {"quick": 200, "thorough": 600}, "bounds": "1-3 ops + a jump, 0-2 earlier reads",
     "encodes": ["explorerscript.cli.decompile.read_routines", "explorerscript.cli.decompile.read_ops"]},
]
