"""C14 — source maps survive storage and offset rewriting (Engine X on the real explorerscript.source_map)."""
from __future__ import annotations

import json as _real_json
from typing import Any

import explorerscript.source_map as sm_mod
from explorerscript.source_map import SourceMap, SourceMapping, MacroSourceMapping, SourceMapPositionMark
from findings.predicates import admit
from vlib.hx import verdict, tb, NATIVE

from vlib.hx import CASE


# ---- JSON stub: the documented data-model contract of json.dumps/json.loads ---------------------------------
class _JsonDoc:
    """What json.loads(json.dumps(x)) returns, computed without going through text: tuples become lists, dict keys
    become str(key), None/int/str/bool/list are preserved. (Validated against the real json module natively.)"""

    def __init__(self, v: Any):
        self.v = v

    def __eq__(self, other: object) -> bool:
        return isinstance(other, _JsonDoc) and self.v == other.v


def _norm(x: Any) -> Any:
    if isinstance(x, dict):
        return {str(k): _norm(v) for k, v in x.items()}
    if isinstance(x, (list, tuple)):
        return [_norm(v) for v in x]
    return x


class JsonModel:
    @staticmethod
    def dumps(x: Any, indent: Any = None) -> Any:
        return _JsonDoc(_norm(x))

    @staticmethod
    def loads(d: Any) -> Any:
        assert isinstance(d, _JsonDoc)
        return d.v


if not NATIVE:
    sm_mod.json = JsonModel  # type: ignore  # stub lives in this process only
else:
    sm_mod.json = _real_json  # type: ignore


_c = CASE or 0
LAST_DETAIL: Any = None
KEYR = (0, 3)  # key range for S1 (str(key)/int(text) are enumerated by the solver: keep the range small)


def _mark(a: int, b: int, c: int, d: int, name: str, e: int, f: int, g: int, h: int) -> SourceMapPositionMark:
    return SourceMapPositionMark(a, b, c, d, name, e, f, g, h)


def _mark_fields(m: SourceMapPositionMark) -> list[Any]:
    return [m.line_number, m.column_number, m.end_line_number, m.end_column_number, m.name, m.x_offset, m.y_offset,
            m.x_relative, m.y_relative]


def _mac_fields(m: MacroSourceMapping) -> list[Any]:
    ci = None if m.called_in is None else list(m.called_in)
    return [m.relpath_included_file, m.macro_name, m.line, m.column, ci, m.return_addr, dict(m.parameter_mapping)]


def _distinct(xs: list[int]) -> bool:
    for i in range(len(xs)):
        for j in range(i + 1, len(xs)):
            if xs[i] == xs[j]:
                return False
    return True


def _in_range(xs: list[int], lo: int, hi: int) -> bool:
    for x in xs:
        if not (lo <= x <= hi):
            return False
    return True


def _roundtrip_ok(m: SourceMap) -> bool:
    global LAST_DETAIL
    ser = m.serialize()
    m2 = SourceMap.deserialize(ser)
    LAST_DETAIL = {"serialized": str(ser)}
    ok = m2 == m and m == m2
    # field by field (SourceMap.__eq__ ignores the macro tables)
    ok = ok and list(m2._mappings.keys()) == list(m._mappings.keys())
    ok = ok and all(type(k) is int for k in m2._mappings.keys()) and all(type(k) is int for k in m2._mappings_macros.keys())
    for k in m._mappings:
        a, b = m._mappings[k], m2._mappings.get(k)
        ok = ok and b is not None and a.line == b.line and a.column == b.column and type(b) is SourceMapping
    ok = ok and list(m2._mappings_macros.keys()) == list(m._mappings_macros.keys())
    for k in m._mappings_macros:
        a2, b2 = m._mappings_macros[k], m2._mappings_macros.get(k)
        ok = ok and b2 is not None and _mac_fields(a2) == _mac_fields(b2)
    ok = ok and len(m2._position_marks) == len(m._position_marks)
    ok = ok and all(_mark_fields(x) == _mark_fields(y) for x, y in zip(m._position_marks, m2._position_marks))
    ok = ok and len(m2._position_marks_macro) == len(m._position_marks_macro)
    ok = ok and all(x[0] == y[0] and x[1] == y[1] and _mark_fields(x[2]) == _mark_fields(y[2])
                    for x, y in zip(m._position_marks_macro, m2._position_marks_macro))
    ok = ok and m2.serialize() == ser
    return ok


# ---- S1a: table structure (sizes from CASE; simple entries; all values symbolic) -----------------------------
S1_NK, S1_NM, S1_NPM, S1_NPMM = _c % 4, (_c // 4) % 4, (_c // 16) % 4, (_c // 64) % 4


def s1_cases(maxe: int) -> list[int]:
    """all (nk, nm, npm, npmm) in 0..maxe"""
    r = range(maxe + 1)
    return [a + 4 * b + 16 * c + 64 * d for a in r for b in r for c in r for d in r]


def h_roundtrip_tables(k0: int, k1: int, k2: int, mk0: int, mk1: int, mk2: int, l0: int, l1: int, l2: int, c0: int,
                       ml0: int, ml1: int, mc0: int, cl: int, cc: int, r0: int, r1: int, f0: str, n0: str, n1: str,
                       p0: int, p1: int, p2: int, p3: int, p4: int, p5: int, p6: int, p7: int, pn0: str, pn1: str,
                       q0: int, q1: int, pf: str) -> bool:
    """
    pre: _in_range([k0, k1, k2, mk0, mk1, mk2], KEYR[0], KEYR[1])
    pre: _distinct([k0, k1, k2][:S1_NK]) and _distinct([mk0, mk1, mk2][:S1_NM])
    pre: len(f0) <= 2 and len(n0) <= 2 and len(n1) <= 2 and len(pn0) <= 2 and len(pn1) <= 2 and len(pf) <= 2
    post: _
    """
    keys = [k0, k1, k2][:S1_NK]
    lines = [l0, l1, l2]
    mappings = {k: SourceMapping(lines[i], c0 + i) for i, k in enumerate(keys)}
    mkeys = [mk0, mk1, mk2][:S1_NM]
    mls = [ml0, ml1, ml0 + ml1]
    names = [n0, n1, n0 + n1]
    rets = [r0, r1, None]
    macros = {k: MacroSourceMapping(f0 if i != 1 else None, names[i], mls[i], mc0 + i,
                                    (f0 if i == 1 else None, cl, cc + i) if i != 2 else None, rets[i],
                                    {"x": names[i], "y": r0 + i} if i != 1 else {})
              for i, k in enumerate(mkeys)}
    marks = [_mark(p0 + j, p1, p2, p3 + j, [pn0, pn1, pn0 + "x"][j], p4, p5, p6, p7 - j) for j in range(S1_NPM)]
    mmarks = [([pf, None, pf][j], [pn1, pn0, "y"][j], _mark(q0 + j, q1, p2, p3, [pn1, pn0, pn1][j], p4, p5 + j, p6, p7))
              for j in range(S1_NPMM)]
    return verdict(_roundtrip_ok(SourceMap(mappings, marks, macros, mmarks)))  # type: ignore


# ---- S1b: entry shapes (one op entry, one macro entry with every optional-field combination symbolic) --------
def h_roundtrip_entry(l: int, c: int, ml: int, mc: int, cl: int, cc: int, r: int, pv: int,
                      file: str, name: str, cfile: str, pvs: str,
                      has_file: bool, has_ci: bool, has_cifile: bool, has_ret: bool, np: int, pv_is_str: bool) -> bool:
    """
    pre: 0 <= np <= 2
    pre: len(file) <= 2 and len(name) <= 2 and len(cfile) <= 2 and len(pvs) <= 2
    post: _
    """
    pm: dict[str, int | str] = {}
    if np >= 1:
        pm["a"] = pvs if pv_is_str else pv
    if np >= 2:
        pm["b"] = pv
    ci = ((cfile if has_cifile else None), cl, cc) if has_ci else None
    e = MacroSourceMapping(file if has_file else None, name, ml, mc, ci, r if has_ret else None, pm)
    m = SourceMap({1: SourceMapping(l, c)}, [], {2: e}, [])
    return verdict(_roundtrip_ok(m))


# ---- S2: rewrite_offsets against a reference ------------------------------------------------------------------
S2_NK, S2_NM, S2_NMAP = _c % 4, (_c // 4) % 4, (_c // 16) % 8
LO, HI = 0, tb(4, 6)


def s2_cases(maxk: int, maxmac: int, maxm: int) -> list[int]:
    """op table and macro table are rewritten by independent statements: (nk, 0, nmap) and (0, nm, nmap), plus the
    mixed case (1, 1, nmap)"""
    out = set()
    for c in range(maxm + 1):
        for a in range(maxk + 1):
            out.add(a + 16 * c)
        for b in range(maxmac + 1):
            out.add(4 * b + 16 * c)
        out.add(1 + 4 + 16 * c)
    return sorted(out)


def _ref_return_addr(a: int, pairs: list[tuple[int, int]]) -> tuple[bool, int]:
    """reference: least surviving old offset >= a -> its new offset; (False, _) if none survives"""
    found = False
    best_o = 0
    best_n = 0
    for o, n in pairs:
        if o >= a and (not found or o < best_o):
            found, best_o, best_n = True, o, n
    return found, best_n


def h_rewrite(k0: int, k1: int, k2: int, mk0: int, mk1: int, mk2: int, r0: int, r1: int, r2: int,
              hr0: bool, hr1: bool, hr2: bool, o0: int, o1: int, o2: int, o3: int, o4: int,
              n0: int, n1: int, n2: int, n3: int, n4: int) -> bool:
    """
    pre: _in_range([k0, k1, k2, mk0, mk1, mk2, o0, o1, o2, o3, o4, n0, n1, n2, n3, n4], LO, HI)
    pre: _in_range([r0, r1, r2], LO, HI + 1)
    pre: _distinct([k0, k1, k2][:S2_NK]) and _distinct([mk0, mk1, mk2][:S2_NM])
    pre: _distinct([o0, o1, o2, o3, o4][:S2_NMAP]) and _distinct([n0, n1, n2, n3, n4][:S2_NMAP])
    post: _
    """
    global LAST_DETAIL
    keys = [k0, k1, k2][:S2_NK]
    mkeys = [mk0, mk1, mk2][:S2_NM]
    rets = [r0, r1, r2]
    has_ret = [hr0, hr1, hr2]
    olds = [o0, o1, o2, o3, o4][:S2_NMAP]
    news = [n0, n1, n2, n3, n4][:S2_NMAP]
    mappings = {k: SourceMapping(100 + i, 200 + i) for i, k in enumerate(keys)}
    macros = {k: MacroSourceMapping(None, "m", 300 + i, 400 + i, None, rets[i] if has_ret[i] else None, {})
              for i, k in enumerate(mkeys)}
    m = SourceMap(dict(mappings), [], dict(macros), [])
    new_mapping = {o: n for o, n in zip(olds, news)}
    pairs = list(zip(olds, news))
    m.rewrite_offsets(dict(new_mapping))
    ok = True
    # (1) entries move to new[old]; entries with absent keys disappear; nothing else does
    exp_keys = [new_mapping[k] for k in keys if k in new_mapping]
    ok = ok and sorted(m._mappings.keys()) == sorted(exp_keys)
    for k in keys:
        if k in new_mapping:
            ok = ok and m._mappings.get(new_mapping[k]) is mappings[k]
    exp_mkeys = [new_mapping[k] for k in mkeys if k in new_mapping]
    ok = ok and sorted(m._mappings_macros.keys()) == sorted(exp_mkeys)
    for i, k in enumerate(mkeys):
        if k in new_mapping:
            e = m._mappings_macros.get(new_mapping[k])
            ok = ok and e is macros[k]
            if e is not None:
                if not has_ret[i]:
                    ok = ok and e.return_addr is None
                else:
                    found, want = _ref_return_addr(rets[i], pairs)
                    if found:
                        ok = ok and e.return_addr == want
    LAST_DETAIL = {"mappings": sorted(m._mappings.keys()),
                   "macros": {k: v.return_addr for k, v in m._mappings_macros.items()}}
    return verdict(ok)


_ENC_RT = ["explorerscript.source_map.SourceMap.serialize", "explorerscript.source_map.SourceMap.deserialize",
           "explorerscript.source_map.SourceMapping.serialize", "explorerscript.source_map.SourceMapping.deserialize",
           "explorerscript.source_map.SourceMapping.__eq__",
           "explorerscript.source_map.MacroSourceMapping.serialize",
           "explorerscript.source_map.MacroSourceMapping.deserialize",
           "explorerscript.source_map.SourceMapPositionMark.serialize",
           "explorerscript.source_map.SourceMapPositionMark.deserialize",
           "explorerscript.source_map.SourceMapPositionMark.__eq__",
           "explorerscript.source_map.SourceMap.__eq__"]
_STUB = ["json.dumps/json.loads replaced by the JSON data-model contract (tuples->lists, dict keys->str(key)); "
         "validated natively against the real json module (model validation part + every replay)"]

OBLIGATIONS = [
    {"id": "C14.S1a", "module": __name__, "func": "h_roundtrip_tables",
     "what": "deserialize(serialize(m)) == m and field-by-field equality of all four tables, int keys restored, "
             "serialize idempotent — table sizes from the case split, all values symbolic",
     "cases": {"quick": s1_cases(2), "thorough": s1_cases(3)},
     "timeout": {"quick": 120, "thorough": 900},
     "bounds": {"quick": "every combination of table sizes 0..2 (81 cases); keys in [0,3]; strings |s|<=2; all other "
                         "ints unbounded",
                "thorough": "every combination of table sizes 0..3 (256 cases); keys in [0,3]; strings |s|<=2"},
     "encodes": _ENC_RT, "stubs": _STUB},
    {"id": "C14.S1b", "module": __name__, "func": "h_roundtrip_entry",
     "what": "one op entry + one macro entry with every combination of optional fields (file None/str, call site "
             "None/(None|str,int,int), return address None/int, 0-2 parameter mappings with int or str values)",
     "timeout": {"quick": 120, "thorough": 600},
     "bounds": "keys concrete (1, 2); strings |s|<=2; other ints unbounded; 72 field-presence combinations",
     "encodes": _ENC_RT, "stubs": _STUB},
    {"id": "C14.S2", "module": __name__, "func": "h_rewrite",
     "what": "rewrite_offsets agrees with a reference: entries move to new[old], absent keys dropped and nothing else, "
             "return address -> new offset of least surviving old offset >= it; entries moved not copied",
     "cases": {"quick": s2_cases(2, 2, 2), "thorough": sorted(set(s2_cases(3, 1, 3)) | set(s2_cases(3, 2, 2)))},
     "timeout": {"quick": 200, "thorough": 1500},
     "bounds": {"quick": "op table <=2 entries or macro table <=2 entries (or 1+1), injective (possibly non-monotone, "
                         "dropping) mapping <=2 pairs, offsets in [0,4], return addresses in [0,5]",
                "thorough": "op table <=3 or macro table <=2 entries (or 1+1), injective mapping <=3 pairs (<=2 pairs "
                            "with 2 macro entries: that slice did not finish in 2400 s), offsets in [0,6], return "
                            "addresses in [0,7]"},
     "encodes": ["explorerscript.source_map.SourceMap.rewrite_offsets"]},
]
