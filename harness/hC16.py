"""C16 solver-decided parts: alternative spellings of one token sequence read to the same values."""
from __future__ import annotations

from typing import Any

from explorerscript.ssb_converting.compiler.utils import singleline_string_literal, multiline_string_literal, CompilerCtx, Counter
from explorerscript.ssb_converting.ssb_data_types import SsbOpParamFixedPoint, SsbOpParamConstant
from explorerscript.source_map import SourceMapBuilder
from vlib.hx import verdict, CASE, NATIVE, tb
from harness import hC04

LAST_DETAIL: Any = None
_c = CASE or 0
BS = chr(92)
WL, FL = tb(1, 2), 1
C_NEG, C_Z = _c % 2 == 1, 1 + (_c // 2) % 2


def h_quote_style(s: str) -> bool:
    """
    pre: len(s) <= 4 and "'" not in s and '"' not in s and BS not in s
    post: _
    """
    a = singleline_string_literal("'" + s + "'")
    b = singleline_string_literal('"' + s + '"')
    return verdict(a == b and s == a)


def _escaped_ok(s: str) -> bool:
    """a body that is valid inside both quote styles: quotes only as backslash-quote, backslash only before a quote"""
    i = 0
    n = len(s)
    while i < n:
        c = s[i]
        if c == BS:
            if i + 1 >= n or s[i + 1] not in ("'", '"'):
                return False
            i += 2
        elif c == "'" or c == '"' or c == "\n" or c == "\r" or c == "\f":
            return False
        else:
            i += 1
    return True


def h_quote_style_escaped(s: str) -> bool:
    """
    pre: len(s) <= 5 and BS in s and _escaped_ok(s)
    post: _
    """
    # the same body with escaped quotes inside either delimiter reads to the same value: the body with every
    # backslash-quote replaced by the quote
    a = singleline_string_literal("'" + s + "'")
    b = singleline_string_literal('"' + s + '"')
    want = s.replace(BS + "'", "'").replace(BS + '"', '"')
    return verdict(want == a and want == b)


def h_quote_style_multi(s: str) -> bool:
    """
    pre: len(s) <= 4 and "'" not in s and '"' not in s
    post: _
    """
    a = multiline_string_literal("'''" + s + "'''")
    b = multiline_string_literal('"""' + s + '"""')
    return verdict(a == b)


def h_leading_zeros(w: str, f: str, z: int, neg: bool) -> bool:
    """
    pre: len(w) <= WL and 1 <= len(f) <= FL and hC04._digits(w) and hC04._digits(f) and z == C_Z and neg == C_NEG
    post: _
    """
    sign = "-" if neg else ""
    a = SsbOpParamFixedPoint.from_str(sign + w + "." + f)
    b = SsbOpParamFixedPoint.from_str(sign + "0" * z + w + "." + f)
    return verdict(a == b)


class _T:
    def __init__(self, text: str):
        self.text = text

    def __str__(self) -> str:
        return self.text


class _TargetCtx:
    def __init__(self, legacy: str | None, new: str | None):
        self._l, self._n = legacy, new

    def FOR_TARGET(self) -> Any:
        return _T(self._l) if self._l is not None else None

    def IDENTIFIER(self) -> Any:
        return _T(self._n) if self._n is not None else None


class _ForCtx:
    """stand-in for For_target_defContext: `def N for_actor(X)` / `def N for actor X` / `def N for actor(X)`"""

    def __init__(self, rid: str, legacy: str | None, new: str | None):
        self._rid = rid
        self._t = _TargetCtx(legacy, new)

    def INTEGER(self) -> Any:
        return _T(self._rid)

    def for_target_def_target(self) -> Any:
        return self._t


class _IL:
    """an IntegerLikeCompileHandler stand-in is not needed: add() only calls collect() on the real class; we use the
    real handler with a stand-in integer_like context"""

    def __init__(self, kind: int, text: str):
        self.kind, self.text = kind, text

    def INTEGER(self) -> Any:
        return _T(self.text) if self.kind == 0 else None

    def DECIMAL(self) -> Any:
        return None

    def IDENTIFIER(self) -> Any:
        return _T(self.text) if self.kind == 1 else None

    def VARIABLE(self) -> Any:
        return _T(self.text) if self.kind == 2 else None


KINDS = ["actor", "object", "performer"]


def h_for_target(kind: int, tkind: int, d: int, name: str, rid: int) -> bool:
    """
    pre: 0 <= kind <= 2 and 0 <= tkind <= 2 and 0 <= d <= 9 and 1 <= len(name) <= 2 and 0 <= rid <= 3
    post: _
    """
    from explorerscript.ssb_converting.compiler.compile_handlers.functions.for_target_def import ForTargetDefCompileHandler
    from explorerscript.ssb_converting.compiler.compile_handlers.atoms.integer_like import IntegerLikeCompileHandler

    k = KINDS[0]
    for i in range(3):
        if kind == i:
            k = KINDS[i]
    ttext = "7" if tkind == 0 else ("ACTOR_X" if tkind == 1 else "$VAR")
    if tkind == 0:
        for i in range(10):
            if d == i:
                ttext = "0123456789"[i]
    infos = []
    for legacy in (True, False):
        ctx = CompilerCtx(Counter(), SourceMapBuilder(), {}, Counter(), "$P", {})
        fctx = _ForCtx("0123"[rid] if rid < 4 else "0", "for_" + k if legacy else None, None if legacy else k)
        h = ForTargetDefCompileHandler(fctx, ctx)  # type: ignore
        h.add(IntegerLikeCompileHandler(_IL(tkind, ttext), ctx))  # type: ignore
        info, ops = h.collect()
        infos.append((info.type, info.linked_to, info.linked_to_name, h.get_new_routine_id(-1), len(ops)))
    return verdict(infos[0] == infos[1])


OBLIGATIONS = [
    {"id": "C16.S1", "module": "harness.hC04", "func": "h_int",
     "what": "integer base independence: a numeral in base 10/16/8/2 (either letter case) is one INTEGER token and reads to "
             "its positional value, so two spellings of one number give one parameter (shared harness with C04.S5c)",
     "cases": {"quick": hC04.int_cases(2), "thorough": hC04.int_cases(3)},
     "timeout": {"quick": 240, "thorough": 1200}, "bounds": {"quick": "1-2 digits per numeral", "thorough": "1-2 digits in every base, 3 digits in base 2"},
     "encodes": ["explorerscript.util.exps_int"]},
    {"id": "C16.S2a", "module": __name__, "func": "h_quote_style",
     "what": "single-line strings: the two quote styles of one body read to the same value (the body itself)",
     "timeout": {"quick": 240, "thorough": 900}, "bounds": "|s| <= 4, no quote or backslash in the body",
     "encodes": ["explorerscript.ssb_converting.compiler.utils.singleline_string_literal"]},
    {"id": "C16.S2c", "module": __name__, "func": "h_quote_style_escaped",
     "what": "single-line strings with escaped quotes: the same body inside '...' and \"...\" reads to the same value (every "
             "backslash-quote replaced by the quote), wherever the escape sits (start, middle, end, doubled)",
     "timeout": {"quick": 280, "thorough": 900}, "bounds": "|s| <= 5, at least one backslash, backslashes only before quotes, no line breaks",
     "encodes": ["explorerscript.ssb_converting.compiler.utils.singleline_string_literal"]},
    {"id": "C16.S2b", "module": __name__, "func": "h_quote_style_multi",
     "what": "multi-line strings: the two triple-quote styles of one body read to the same value",
     "timeout": {"quick": 300, "thorough": 1200}, "bounds": "|s| <= 4, no quote in the body",
     "encodes": ["explorerscript.ssb_converting.compiler.utils.multiline_string_literal"]},
    {"id": "C16.S4", "module": __name__, "func": "h_leading_zeros",
     "what": "decimals with 1-2 redundant leading zeros read to the same fixed-point value",
     "cases": [0, 1, 2, 3],
     "timeout": {"quick": 300, "thorough": 1200}, "bounds": {"quick": "whole part 0-1 digits, fraction 1 digit, optional '-'", "thorough": "whole 0-2 digits, fraction 1 digit"},
     "encodes": ["explorerscript.ssb_converting.ssb_data_types.SsbOpParamFixedPoint.from_str"]},
    {"id": "C16.S3", "module": __name__, "func": "h_for_target",
     "what": "routine headers: `for_actor(X)` (deprecated) and `for actor X` give equal routine info (type, target id or "
             "name) and routine id, for integer, constant and variable targets",
     "timeout": {"quick": 240, "thorough": 900},
     "bounds": "3 target kinds x 3 argument kinds (digit 0-9, constant, variable), routine id 0-3",
     "encodes": ["explorerscript.ssb_converting.compiler.compile_handlers.functions.for_target_def.ForTargetDefCompileHandler.collect",
                 "explorerscript.ssb_converting.compiler.compile_handlers.atoms.integer_like.IntegerLikeCompileHandler.collect"],
     "stubs": ["For_target_defContext / Integer_likeContext replaced by stand-ins with the token accessors the handlers call"]},
    {"id": "C16.S5", "module": "harness.hC01", "func": "h_layout",
     "what": "layout is not meaning: the real compile() on the real parse tree of a template whose tokens are moved as if dl "
             "line breaks and dc blanks were inserted before token k yields the same ops (shared harness with C08.S1, which "
             "also checks the source map)",
     "cases": {"quick": list(range(6)), "thorough": list(range(36))}, "timeout": {"quick": 280, "thorough": 900},
     "bounds": "quick: 6 templates, thorough: + 30 programs sampled from families F1-F4. 6 templates covering every statement and block kind; k over every token, dl and dc unbounded non-negative "
               "integers; token texts unchanged (comments and blank characters never reach the parser: lexer, enumerated in E6)",
     "encodes": ["explorerscript.ssb_converting.ssb_compiler.ExplorerScriptSsbCompiler.compile",
                 "explorerscript.ssb_converting.compiler.compiler_visitor.statement_visitor.StatementVisitor"],
     "stubs": ["ExplorerScriptReader replaced by a stand-in handing out the real parse tree of the template (lexing and "
               "parsing run untraced); token positions rewritten by the harness"]},
]
