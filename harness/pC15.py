"""C15 part E2 — both CLIs end to end (subprocesses), behaviour of the round trip decided by Engine T."""
from __future__ import annotations

import json
import os
import shutil
import subprocess
import sys
import tempfile
from typing import Any

from spec import es_ast, es_sem, ssb_machine
from spec.families import programs
from vlib import engine_t, trun
from harness import pC01, pC02

SETTINGS = {"settings": {"performance_progress_list_var_name": pC01.PERF,
                         "dungeon_mode_constants": {"open": pC02.DMODES[1], "closed": pC02.DMODES[0],
                                                    "request": pC02.DMODES[2], "open_request": pC02.DMODES[3]}}}
TYPES = {"COROUTINE", "GENERIC", "ACTOR", "OBJECT", "PERFORMER"}
PTYPES = {"FIXED_POINT", "CONSTANT", "CONST_STRING", "LANG_STRING", "POSITION_MARK"}


def structure_error(doc: Any) -> str | None:
    """documented structure of the compile command's output"""
    if not isinstance(doc, dict) or "routines" not in doc or "settings" not in doc:
        return "top level must have settings and routines"
    for r in doc["routines"]:
        if r.get("type") not in TYPES or not isinstance(r.get("ops"), list):
            return f"routine {r!r:.80}"
        if r["type"] == "COROUTINE" and not isinstance(r.get("name"), str):
            return "coroutine without name"
        if r["type"] in ("ACTOR", "OBJECT", "PERFORMER") and not isinstance(r.get("target_id"), (int, str)):
            return "targeted routine without target_id"
        for op in r["ops"]:
            if not isinstance(op.get("opcode"), str) or not isinstance(op.get("params"), list):
                return f"op {op!r:.80}"
            for p in op["params"]:
                if isinstance(p, bool) or not (isinstance(p, int) or (isinstance(p, dict) and p.get("type") in PTYPES
                                                                      and "value" in p)):
                    return f"param {p!r:.80}"
    return None


def task(name: str, prog: dict[str, Any]) -> dict[str, Any]:
    d = tempfile.mkdtemp(prefix="verif_c15_")
    env = dict(os.environ, PYTHONWARNINGS="ignore")
    try:
        with open(os.path.join(d, "s.json"), "w") as fh:
            json.dump(SETTINGS, fh)
        text = es_ast.to_text(prog)
        with open(os.path.join(d, "p.exps"), "w", encoding="utf-8") as fh:
            fh.write(text)
        try:
            ref = pC01.compile_text(text)
            accepted = True
        except Exception:  # noqa
            ref, accepted = None, False
        p1 = subprocess.run([sys.executable, "-m", "explorerscript.cli.compile", "p.exps", "--settings", "s.json"],
                            cwd=d, env=env, capture_output=True, text=True, timeout=60)
        out: dict[str, Any] = {"status": "ok", "routines": 0, "equal": 0, "program": prog}
        if (p1.returncode == 0) != accepted:
            out.update({"status": "violation", "kind": "exit-status",
                        "what": f"compile CLI exit status {p1.returncode} but compilation "
                                f"{'succeeds' if accepted else 'fails'} (exit 0 exactly on success)",
                        "witness": {"kind": "exit-status", "text": text, "stderr": p1.stderr[-300:]}})
            return out
        if not accepted:
            return {"status": "rejected", "what": "invalid program: CLI exits non-zero as required"}
        try:
            doc = json.loads(p1.stdout)
        except Exception as e:  # noqa
            out.update({"status": "violation", "kind": "json", "what": f"stdout is not JSON: {e}",
                        "witness": {"kind": "json", "text": text, "stdout": p1.stdout[:300]}})
            return out
        se = structure_error(doc)
        if se:
            out.update({"status": "violation", "kind": "structure", "what": "JSON does not have the documented structure: " + se,
                        "witness": {"kind": "structure", "text": text}})
            return out
        # jump parameters = 1-based position of the target op across all routines (vs the in-process compile)
        pos = {}
        for ops in ref.routine_ops:
            for op in ops:
                pos[op.offset] = len(pos) + 1
        flat_ref = [op for ops in ref.routine_ops for op in ops]
        flat_doc = [op for r in doc["routines"] for op in r["ops"]]
        if len(flat_ref) != len(flat_doc):
            out.update({"status": "violation", "kind": "ops", "what": "number of printed ops differs from the compilation result",
                        "witness": {"kind": "ops", "text": text}})
            return out
        for a, b in zip(flat_ref, flat_doc):
            if a.op_code.name in ssb_machine.JUMP_OPS and b["params"][-1] != pos[a.params[-1]]:
                out.update({"status": "violation", "kind": "numbering",
                            "what": f"{a.op_code.name}: printed jump parameter {b['params'][-1]} but the target op is "
                                    f"number {pos[a.params[-1]]} in the printed list",
                            "witness": {"kind": "numbering", "text": text}})
                return out
        with open(os.path.join(d, "o.json"), "w") as fh:
            fh.write(p1.stdout)
        x = pC02.renumber(ref.routine_ops)
        classes = pC02.input_classes(ref.routine_infos, x)
        out["classes"] = classes
        if pC02.well_formed(x) is not None:
            out["sample"] = {"cli": "compile only (output has an op-free cycle; not a valid decompiler input)"}
            return out
        try:
            p2 = subprocess.run([sys.executable, "-m", "explorerscript.cli.decompile", "o.json"], cwd=d, env=env,
                                capture_output=True, text=True, timeout=20)
        except subprocess.TimeoutExpired:
            out.update({"status": "timeout", "where": "explorerscript/ssb_converting/decompiler (decompile CLI subprocess)"})
            return out
        if p2.returncode != 0:
            out.update({"status": "violation", "kind": "decompile-rejects",
                        "what": f"decompile CLI does not accept the compile CLI's output: exit {p2.returncode}: "
                                f"{p2.stderr.strip().splitlines()[-1][:160] if p2.stderr.strip() else ''}",
                        "witness": {"kind": "decompile-rejects", "text": text, "stderr": p2.stderr[-400:]}})
            return out
        text2 = p2.stdout
        try:
            c2 = pC01.compile_text(text2)
        except Exception as e:  # noqa
            out.update({"status": "violation", "kind": "rejected", "what": f"decompile CLI output rejected by the compiler: "
                                                                             f"{type(e).__name__}: {str(e)[:120]}",
                        "witness": {"kind": "rejected", "text": text, "decompiled": text2[:1200]}})
            return out
        # behaviour: source semantics vs compile(decompileCLI(compileCLI(source)))
        g, entries = es_sem.program_lts(prog)
        gm, em = ssb_machine.ops_lts(c2.routine_ops)
        stats = engine_t.Stats()
        if ssb_machine.infos(c2.routine_infos, c2.named_coroutines) != es_sem.routine_infos(prog):
            out.update({"status": "violation", "kind": "table", "what": "routine table changed by the CLI round trip",
                        "witness": {"kind": "table", "text": text, "decompiled": text2[:1200]}})
            return out
        for i, (ea, eb) in enumerate(zip(entries, em)):
            if ea is None or eb is None:
                continue
            g.entry, gm.entry = ea, eb
            out["routines"] += 1
            r = engine_t.equivalent(g.visible(), gm.visible(), stats, norm=pC02.norm_label)
            if r["verdict"] == "equal":
                out["equal"] += 1
            elif r["verdict"] == "differ":
                out.update({"status": "violation", "kind": "trace",
                            "what": f"routine {i}: after outcomes {r['outcomes']} the source performs {r['labels'][0]} "
                                    f"but the CLI round trip performs {r['labels'][1]}",
                            "witness": {"kind": "trace", "text": text, "decompiled": text2[:1500]}})
                break
            else:
                out.update({"status": "inconclusive", "what": r.get("why")})
                break
        out["queries"] = {"q1": stats.q1, "q2": stats.q2, "solver_s": stats.solver_s, "states": stats.states,
                          "transitions": stats.transitions, "k_hist": stats.k_hist}
        if out["status"] == "ok":
            out["sample"] = {"source": text[:200], "json_ops": len(flat_doc), "round_trip": "behaves like the source"}
        return out
    finally:
        shutil.rmtree(d, ignore_errors=True)


def replay(name: str, prog_repr: str, witness: Any) -> bool:
    return task(name, trun.parse_prog(prog_repr))["status"] != "violation"


INVALID = [
    ("C15.invalid.break", {"routines": [("def", 0, [("ctrl", "break")])]}),
    ("C15.invalid.label", {"routines": [("def", 0, [("jump", "nowhere")])]}),
]


def run(tier: str, seed: int, known: list[dict[str, Any]]) -> dict[str, Any]:
    allp = list(programs(tier, seed))
    step = 6 if tier == "quick" else 3  # every program took > 55 min: two interpreter start-ups per program
    progs = [p for i, p in enumerate(allp) if i % step == 0 or p[0].startswith("F4.")] + INVALID
    return trun.run_family("C15", "C15.E2", task, progs, known, pC02.classify,
                           bounds=f"every {step}th program of F1-F4 + routine tables + invalid programs, through both CLI "
                                  f"commands as subprocesses ({tier})")
