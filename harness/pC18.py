"""C18 part E3 — real parser: listing vs literals in the text, and in-place replacement (enumerated sources/layouts)."""
from __future__ import annotations

from typing import Any

from vlib import trun

SOURCES = [
    "def 0 {{ a({m0}); end; }}",
    "def 0 {{ a(1, {m0}, 'x', {m1}); b({m2}); end; }}",
    "macro m($p) {{ inner({m0}, $p); }}\ndef 0 {{ ~m({m1}); c({m2}); end; }}",
    "def 0 {{\n  switch (ProcessSpecial(1, {m0}, 3)) {{\n    case 1:\n      a({m1});\n      break;\n    default:\n      b<actor 2>({m2});\n  }}\n  end;\n}}",
    "def 0 {{ if (debug) {{ forever {{ a({m0}); break_loop; }} }} else {{ with (actor 1) {{ w({m1}); }} }} end; }}\ndef 1 {{ z({m2}); }}",
    "def 0 {{ a(/* c */ {m0} /* d */, // line\n {m1}); end; }}",
    "coro A {{ a({m0}); {m0_op}; end; }}",
    "def 0 {{ if (BranchExecuteSub({m0}) || $A == 1) {{ a(); }} elseif (BranchSum({m1})) {{ b(); }} while (BranchExecuteSub({m2}, 1)) {{ w(); }} end; }}",
    "def 0 {{ for ($I = 0; BranchSum({m0}, 2); $I += 1;) {{ x({m1}); }} switch ($V) {{ case 1: y({m2}); }} end; }}",
]
MARKS = [
    ["Position<'m', 1, 2>", "Position<\"n\", 3.5, -4>", "Position<'o', -1.5, 0.50>"],
    ["Position<\n   'm',\n   1,\n   2\n>", "Position< 'n' , 0x10 , 4.0 >", "Position<'o',.5,-.0>"],
    ["Position<'', 10, 20.5>", "Position<'a b', 0b11, 0o7>", "Position<'q', 1.500, 2>"],
]


def items() -> list[tuple[str, Any]]:
    out = []
    for si, src in enumerate(SOURCES):
        for mi, ms in enumerate(MARKS):
            text = src.format(m0=ms[0], m1=ms[1], m2=ms[2], m0_op=f"p({ms[1]})")
            n = sum(src.count(k) for k in ("{m0}", "{m1}", "{m2}")) + src.count("{m0_op}")
            out.append((f"C18.src{si}.marks{mi}", (text, n)))
    return out


def _pos_to_index(text: str, line: int, col: int) -> int:
    lines = text.split("\n")
    return sum(len(x) + 1 for x in lines[:line]) + col


def task(name: str, item: Any) -> dict[str, Any]:
    from explorerscript.explorerscript_reader import ExplorerScriptReader
    from explorerscript.ssb_converting.compiler.compiler_visitor.position_mark_visitor import PositionMarkVisitor
    from explorerscript.ssb_converting.ssb_data_types import SsbOpParamPositionMarker
    from harness.pC01 import compile_text

    text, n = item

    def fail(what: str) -> dict[str, Any]:
        return {"status": "violation", "kind": "listing", "what": what, "program": item, "witness": {"text": text}}

    marks = PositionMarkVisitor().visit(ExplorerScriptReader(text).read())
    if len(marks) != n:
        return fail(f"{len(marks)} entries for {n} Position literals")
    spans = []
    last = -1
    for m in marks:
        a = _pos_to_index(text, m.line_number, m.column_number)
        b = _pos_to_index(text, m.end_line_number, m.end_column_number)
        if not text.startswith("Position", a) or text[b:b + 1] != ">" or a <= last:
            return fail(f"span ({m.line_number},{m.column_number})-({m.end_line_number},{m.end_column_number}) does not "
                        f"delimit a Position literal in source order: {text[a:b + 1]!r}")
        last = a
        spans.append((a, b))
    base = compile_text(text)

    def params(c: Any) -> list[Any]:
        return [p for r in c.routine_ops for op in r for p in op.params]

    bp = params(base)
    pm_idx = [i for i, p in enumerate(bp) if isinstance(p, SsbOpParamPositionMarker)]
    # the compiled parameters carry the same values as the listing (macro bodies are expanded per call: compare by value)
    for m in marks:
        if not any(p.name == m.name and p.x_offset == m.x_offset and p.y_offset == m.y_offset and p.x_relative == m.x_relative
                   and p.y_relative == m.y_relative for p in (bp[i] for i in pm_idx)) and "macro" not in text:
            return fail(f"listing entry {m} has no equal compiled parameter")
    # replacement of exactly the span by the printed form of an edited mark
    for k, (a, b) in enumerate(spans):
        # edited marks include a negative tile with a half-tile offset (the spelling -7.5 means tile -7 plus a half)
        edited = SsbOpParamPositionMarker(f"edit{k}", 2, 2 if k % 2 else 0, 40 + k if k % 3 else -3 - k, -7)
        new_text = text[:a] + str(edited) + text[b + 1:]
        try:
            c2 = compile_text(new_text)
        except Exception as e:  # noqa
            return fail(f"replacing span {k} gives a text that does not compile: {type(e).__name__}: {str(e)[:100]}")
        np_ = params(c2)
        if len(np_) != len(bp):
            return fail(f"replacing span {k} changed the number of parameters")
        changed = [i for i in range(len(bp)) if not _same(bp[i], np_[i])]
        if "macro" in text and k == 0:
            ok = len(changed) >= 1 and all(_is(np_[i], edited) for i in changed)  # a literal in a macro body: every expansion
        else:
            ok = len(changed) == 1 and _is(np_[changed[0]], edited)
        if not ok:
            return fail(f"replacing span {k} changed parameters {changed} (expected exactly the one of that literal)")
    return {"status": "ok", "routines": len(spans), "equal": len(spans),
            "sample": {"source": text[:160], "marks": n, "replacements_checked": len(spans)}}


def _same(p: Any, q: Any) -> bool:
    from spec.ssb_machine import norm_param

    return norm_param(p) == norm_param(q)


def _is(p: Any, e: Any) -> bool:
    return type(p).__name__ == "SsbOpParamPositionMarker" and p == e and p.name == e.name


def replay(name: str, item_repr: str, witness: Any) -> bool:
    return task(name, trun.parse_prog(item_repr))["status"] != "violation"


def run(tier: str, seed: int, known: list[dict[str, Any]]) -> dict[str, Any]:
    r = trun.run_family("C18", "C18.E3", task, items(), known, None,
                        bounds="9 source shapes x 3 literal spellings (multi-line, comments, number bases, macro bodies)")
    r["headline"] = (f"{r['programs']} sources through the real parser: listing delimits every literal in source order and "
                     f"{r['discharged']} in-place replacements change exactly that parameter; {r['disagreements_checked']} violations")
    return r
