"""C07 — SsbScript is a lossless spelling of SSB ops: real SsbScriptSsbDecompiler.convert() executed symbolically
(offsets, gaps, targets symbolic), its text compiled by the real SsbScriptSsbCompiler (ANTLR, untraced: the text is
concrete on every path), result compared with the input while the offsets are still symbolic."""
from __future__ import annotations

from typing import Any

from explorerscript.ssb_converting.ssb_data_types import (SsbOperation, SsbOpCode, SsbRoutineInfo, SsbRoutineType,
                                                         SsbOpParamConstant, SsbOpParamConstString, SsbCoroutine)
from explorerscript.ssb_script.ssb_converting.ssb_decompiler import SsbScriptSsbDecompiler
from explorerscript.ssb_script.ssb_converting.ssb_compiler import SsbScriptSsbCompiler
from vlib.hx import verdict, CASE, NATIVE

LAST_DETAIL: Any = None
_c = CASE or 0
KINDS = ["plain", "Jump", "Branch", "Call", "CaseValue", "weird", "noargs"]
# case = layout (0..3) + 4 * (kind of op0) + 24 * (kind of op1) ; remaining ops are plain/Jump by symbolic flag
LAYOUT = _c % 5          # 0: one routine; 1: split after op 0; 2: [ops][] (alias last); 3: [][ops]; 4: two coroutines
K0 = KINDS[(_c // 5) % 7]
K1 = KINDS[(_c // 35) % 7]
PREFIX = ""


def cases(tier: str) -> list[int]:
    return [lay + 5 * a + 35 * b for lay in range(5) for a in range(7) for b in range(7)]


def case_of(lay: int, a: int, b: int) -> int:
    return lay + 5 * a + 35 * b


def _mk(kind: str, off: Any, tgt: Any, i: int) -> SsbOperation:
    if kind == "plain":
        return SsbOperation(off, SsbOpCode(-1, "op_plain"), [i, SsbOpParamConstant("CONST_A")])
    if kind == "noargs":
        return SsbOperation(off, SsbOpCode(-1, "End"), [])
    if kind == "weird":
        return SsbOperation(off, SsbOpCode(-1, "Some_Unknown_Op9"), [SsbOpParamConstString("s"), -3])
    if kind == "Jump":
        return SsbOperation(off, SsbOpCode(-1, "Jump"), [tgt])
    if kind == "Call":
        return SsbOperation(off, SsbOpCode(-1, "Call"), [tgt])
    if kind == "Branch":
        return SsbOperation(off, SsbOpCode(-1, "Branch"), [SsbOpParamConstant("$V"), 3, tgt])
    return SsbOperation(off, SsbOpCode(-1, "CaseValue"), [2, 5, tgt])


def _run(n: int, gaps: list[int], tgts: list[int], more_jump: list[bool], prefix: str, es_compiler: bool = False) -> bool:
    global LAST_DETAIL
    from crosshair.tracers import NoTracing
    from crosshair.core import deep_realize

    offs = []
    o = -1
    for g in gaps[:n]:
        o += g
        offs.append(o)
    kinds = [K0, K1] + ["Jump" if f else "plain" for f in more_jump]
    kinds = kinds[:n]
    ops = [_mk(kinds[i], offs[i], offs[tgts[i]], i) for i in range(n)]
    if LAYOUT == 0:
        routines = [ops]
    elif LAYOUT == 1:
        routines = [ops[:1], ops[1:]]
    elif LAYOUT == 2:
        routines = [ops, []]
    elif LAYOUT == 3:
        routines = [[], ops]
    else:
        routines = [ops[:1], ops[1:]]
    coros: list[Any] = []
    if LAYOUT == 4:
        infos = [SsbRoutineInfo(SsbRoutineType.COROUTINE, 0) for _ in routines]
        coros = [SsbCoroutine(0, "CORO_A"), SsbCoroutine(1, "CORO_B")]
    else:
        infos = [SsbRoutineInfo(SsbRoutineType.GENERIC, 0) if i == 0 else SsbRoutineInfo(SsbRoutineType.ACTOR, 7)
                 for i in range(len(routines))]
    dec = SsbScriptSsbDecompiler(infos, [list(r) for r in routines], coros)
    text, smap = dec.convert(prefix=prefix) if prefix else dec.convert()
    if NATIVE:
        ctext = text
    else:
        with NoTracing():
            ctext = deep_realize(text)
    comp: Any
    if es_compiler:
        from explorerscript.ssb_converting.ssb_compiler import ExplorerScriptSsbCompiler

        comp = ExplorerScriptSsbCompiler("$P")
        if NATIVE:
            comp.compile(ctext, "/x/fallback.exps")
        else:
            with NoTracing():
                comp.compile(ctext, "/x/fallback.exps")
    else:
        comp = SsbScriptSsbCompiler()
        if NATIVE:
            comp.compile(ctext)
        else:
            with NoTracing():
                comp.compile(ctext)
    got = comp.routine_ops
    if NATIVE:
        LAST_DETAIL = {"text": ctext, "got": repr(got)}
    ok = got is not None and len(got) == len(routines)
    ok = ok and comp.routine_infos is not None and len(comp.routine_infos) == len(routines)
    if not ok:
        return False
    assert got is not None and comp.routine_infos is not None
    for ri in range(len(routines)):
        ok = ok and comp.routine_infos[ri].type == infos[ri].type
        if infos[ri].type == SsbRoutineType.ACTOR:
            ok = ok and comp.routine_infos[ri].linked_to == 7
        if infos[ri].type == SsbRoutineType.COROUTINE:
            ok = ok and comp.named_coroutines[ri] == ["CORO_A", "CORO_B"][ri]
        ok = ok and len(got[ri]) == len(routines[ri])
    if not ok:
        return False
    flat_in = [op for r in routines for op in r]
    flat_out = [op for r in got for op in r]
    for i in range(n):
        a, b = flat_in[i], flat_out[i]
        ok = ok and a.op_code.name == b.op_code.name and len(a.params) == len(b.params)
        if not ok:
            return False
        if kinds[i] in ("Jump", "Call", "Branch", "CaseValue"):
            # every jump parameter denotes the corresponding op: the compiler numbers ops 0..n-1 in order
            ok = ok and b.params[-1] == flat_out[tgts[i]].offset and list(a.params[:-1]) == list(b.params[:-1])
        else:
            ok = ok and list(a.params) == list(b.params)
    return ok


def h_roundtrip2(g0: int, g1: int, t0: int, t1: int) -> bool:
    """
    pre: 1 <= g0 <= 3 and 1 <= g1 <= 3 and 0 <= t0 < 2 and 0 <= t1 < 2
    post: _
    """
    return verdict(_run(2, [g0, g1], [t0, t1], [], PREFIX))


def h_roundtrip3(g0: int, g1: int, g2: int, t0: int, t1: int, t2: int, j2: bool) -> bool:
    """
    pre: 1 <= g0 <= 3 and 1 <= g1 <= 3 and 1 <= g2 <= 3 and 0 <= t0 < 3 and 0 <= t1 < 3 and 0 <= t2 < 3
    post: _
    """
    return verdict(_run(3, [g0, g1, g2], [t0, t1, t2], [j2], PREFIX))


_ENC = ["explorerscript.ssb_script.ssb_converting.ssb_decompiler.SsbScriptSsbDecompiler.convert",
        "explorerscript.ssb_script.ssb_converting.ssb_decompiler.SsbScriptSsbDecompiler._read_op",
        "explorerscript.ssb_converting.decompiler.label_jump_to_resolver.OpsLabelJumpToResolver",
        "explorerscript.ssb_converting.ssb_special_ops.process_op_for_jump",
        "explorerscript.ssb_script.ssb_converting.ssb_compiler.SsbScriptSsbCompiler.compile",
        "explorerscript.ssb_script.ssb_converting.compiler.compiler_listener.SsbScriptCompilerListener",
        "explorerscript.ssb_converting.compiler.label_jump_to_remover.OpsLabelJumpToRemover"]

OBLIGATIONS = [
    {"id": "C07.S1a", "module": __name__, "func": "h_roundtrip2",
     "what": "2 ops: decompile to SsbScript and compile back: same routines/kinds/targets, same ops and parameters, every "
             "jump parameter denotes the corresponding op",
     "cases": {"quick": cases("quick"), "thorough": cases("thorough")},
     "timeout": {"quick": 200, "thorough": 600},
     "bounds": "2 ops; kinds of both ops from {plain, Jump, Branch, Call, CaseValue, unknown name, parameterless} (case "
               "split, 49 pairs); 5 routine layouts incl. empty (alias) routines and named coroutines; offsets symbolic "
               "with gaps 0-2; targets symbolic",
     "encodes": _ENC,
     "stubs": ["the compile stage (ANTLR lexer/parser/listener) runs untraced on the text, which is concrete on every path"]},
    {"id": "C07.S1b", "module": __name__, "func": "h_roundtrip3",
     "what": "3 ops (third op plain or Jump by a symbolic flag), same post-condition",
     "cases": {"quick": [case_of(lay, a, b) for lay in (0, 1) for a in (1, 2) for b in (0, 1, 6)] +
                        [case_of(4, 3, 6), case_of(0, 6, 1)],
               "thorough": cases("thorough")},
     "timeout": {"quick": 240, "thorough": 1800},
     "bounds": {"quick": "3 ops; op0 in {Jump, Branch}, op1 in {plain, Jump, parameterless op}, op2 plain/Jump; layouts one "
                         "routine or split after op0 (+ coroutine and parameterless-first slices); gaps 0-2; targets symbolic",
                "thorough": "3 ops; all 49 kind pairs x 5 layouts"},
     "encodes": _ENC,
     "stubs": ["compile stage untraced on concrete text"]},
]
