"""Property -> machinery."""
PROPS = {
    "C14": {
        "x": ["harness.hC14"],
        "extra": [],
        "level": "other",
        "explanation": "Engine X: CrossHair+z3 symbolic execution of the real SourceMap.serialize/deserialize/"
                       "rewrite_offsets over symbolic maps and symbolic injective offset mappings; every condition "
                       "explored over all paths within the bounds listed per obligation; counterexamples replayed "
                       "natively (real json) before being reported.",
        "technique": "CrossHair+z3 symbolic execution of the real SourceMap code (bounded sizes, case-split), "
                     "native replay",
        "level_text": "Every condition is explored over all paths by CrossHair/z3 within the stated bounds (table "
                      "sizes, key ranges, mapping size); within them the round trip and the rewrite agree with the "
                      "reference for every value. Nothing is claimed beyond the bounds.",
        "level_note": "Trusted: CrossHair's models of dict/list/str/int, z3, the JSON data-model stub (validated "
                      "natively on replay). Non-injective mappings and pretty=True are outside the claim.",
        "assumptions": ["json.dumps/loads modelled by the JSON data-model contract inside the symbolic run",
                        "non-injective offset mappings are outside the claim"],
    },
}

NOT_APPLICABLE = {
    "C12": "concurrency: no engine of this family executes Python threads symbolically; interleavings inside igraph/ANTLR "
           "C/static caches cannot be encoded from source (DESIGN.md §3)",
    "C13": "shape of igraph-driven structuring output: the flow graph lives in a C object, nothing symbolic to quantify "
           "over and nothing for a solver to decide per input; would be plain enumeration (DESIGN.md §3)",
}
