"""Property -> machinery."""
PROPS = {
    "C08": {
        "x": ["harness.hC08", "harness.hC01"],
        "extra": ["harness.pC08.run"],
        "level": "other",
        "explanation": "Engine X: the real ExplorerScriptMacro.build/_build_op with SourceMapBuilder on blueprints compiled "
                       "by the real MacroVisitor (flat, label+jump+return, nested twice), with symbolic op/label counter "
                       "starts and call position: macro entries, call sites on first ops, return addresses (after every op "
                       "of the expansion, number of the first op following it), relayed nested entries, private labels; "
                       "the argument-list handler's position marks with symbolic fields. Enumerated part: F1-F4 programs in "
                       "3 multi-line layouts compiled by the real compiler and every op's entry compared with the position "
                       "at which the printer put its statement / condition / header; F5 macro programs incl. imported and "
                       "transitively imported files in a scratch directory (file names, IncludedUsageMap).",
        "technique": "CrossHair+z3 on the real macro expansion + source-map builder with symbolic counters/positions; "
                     "enumerated compile-and-compare against printer-known positions",
        "level_text": "Macro-entry arithmetic is solver-decided for all counter states/positions within the bounds; the "
                      "registration of directly written ops (about 10 code paths behind the ANTLR tree) is covered by "
                      "enumeration over programs x layouts, not by the solver.",
        "level_note": "Trusted: CrossHair, z3, the position-tracking printer (spec/es_ast.py). Columns in lines with tabs or "
                      "non-BMP characters are outside the claim.",
        "assumptions": ["registration of directly written ops enumerated (stub parse trees not built)"],
    },
    "C16": {
        "x": ["harness.hC16"],
        "extra": ["harness.pC16.run"],
        "level": "other",
        "explanation": "Engine X on the value readers and header handlers behind the alternative spellings: integer bases, "
                       "quote styles (single- and multi-line), redundant leading zeros of decimals, deprecated vs new "
                       "routine-target headers (stand-in contexts): two spellings read to one value for every value within "
                       "the bounds. Whitespace/comment/line-joining insensitivity is a property of the generated lexer "
                       "ATN, which cannot be executed symbolically: it is exercised by enumerated re-spellings of the "
                       "F1-F4 programs compiled through the real lexer/parser (E6) and not claimed as solver-decided.",
        "technique": "CrossHair+z3 on literal readers and routine-header handlers; enumerated re-spellings through the "
                     "real lexer/parser",
        "level_text": "Literal-level equivalences are solver-decided within bounds; layout/comment insensitivity only by "
                      "enumeration.",
        "level_note": "Trusted: CrossHair, z3. The lexer half of the property (whitespace, comments, line joining) is "
                      "outside the solver-decided claim.",
        "assumptions": ["lexer ATN not encodable", "layouts enumerated (6 per program)"],
    },
    "C18": {
        "x": ["harness.hC18"],
        "extra": ["harness.pC18.run"],
        "level": "other",
        "explanation": "Engine X: the real PositionMarkVisitor runs on duck-typed stand-in parse trees whose token lines and "
                       "columns are symbolic (unbounded): one entry per position_marker node, in tree order, with the "
                       "documented span arithmetic and the fields the compile handler produces. The argument parser shared "
                       "with the compiler is C04-S6. Enumerated sources through the real parser validate the stand-ins and "
                       "check in-place replacement (splice, compile, exactly one parameter changes).",
        "technique": "CrossHair+z3 symbolic execution of the real PositionMarkVisitor on stand-in trees with symbolic "
                     "token positions; enumerated splice-and-compile through the real parser",
        "level_text": "Span arithmetic and order are solver-decided for all token positions on 5 tree shapes; correctness of "
                      "ANTLR's own token positions is outside the claim and only exercised by the enumerated part.",
        "level_note": "Trusted: CrossHair, z3, the stand-in tree (validated against the real parser on enumerated sources).",
        "assumptions": ["ANTLR token positions are correct", "tree shapes case-split"],
    },
    "C11": {
        "x": ["harness.hC11"],
        "extra": ["harness.pC11.run", "harness.pC11.fresh_processes"],
        "level": "other",
        "explanation": "The history quantifier is attacked by making the state that survives between calls arbitrary and "
                       "doing one step (Engine X): compile() on a reused compiler whose attributes hold symbolic stale "
                       "values, convert() with symbolic stale writer state / class-level lists / parameter indent fields, "
                       "no mutation of the caller's routine lists, and the CLI reader's numbering after arbitrary earlier "
                       "reads; each must equal the result of a fresh object. ANTLR and igraph run concretely underneath. "
                       "Concrete histories cover state the inventory cannot know about (E): per process, every input is first run "
                       "with all module- and class-level containers of the package restored to their import-time content "
                       "(pristine), then again in three orders on reused compilers with the state carried over; inputs "
                       "include programs that share texts between roles and nesting depths, and files in different "
                       "directories that spell their imports alike. A difference is a replayable violation. The same "
                       "inputs are also processed in 4 fresh interpreters with different PYTHONHASHSEED values.",
        "technique": "CrossHair+z3 havoc lemmas: real compile()/convert() executed with symbolic stale state, result "
                     "compared with a fresh baseline",
        "level_text": "One-step havoc over the inventoried state is solver-decided for 3 inputs per entry point; the "
                      "stale-memo-table lemma (recycled graph ids) is not encoded; state outside the inventory (a memo or "
                      "cache added later) and fresh-process determinism are only reachable by the enumerated histories.",
        "level_note": "Trusted: CrossHair, z3; the inventory of surviving state (instance attributes reset in "
                      "compile()/convert(), class-level lists, param.indent, cli counter). The id()-keyed memo table is "
                      "only exercised by the concrete histories.",
        "assumptions": ["inventory of surviving state is complete", "memo table keyed by id(graph) not modelled symbolically"],
    },
    "C09": {
        "x": ["harness.hC09"],
        "extra": ["harness.pC09.run"],
        "level": "other",
        "explanation": "Engine X: (S1) inductive step of the hand-written line accounting - from any writer state with "
                       "line == 1 + newlines written, write_stmnt / write_line / Blk keep the invariant for every "
                       "statement text incl. embedded newlines, and source_map_add_opcode followed by write_stmnt "
                       "records exactly the 0-based line and the column where the statement begins (both decompilers); "
                       "one step covers outputs of any length. (S2) call protocol of the statement-writing handlers that "
                       "run without graph state; (S3) the source map returned with a fallback answer. Concrete decompilations of F6 "
                       "inputs are checked entry by entry (E3, replayable violations): key is an input offset, position is "
                       "the start of a statement, the line agrees with the source map obtained by compiling the emitted text "
                       "(third clause of the property), and every op printed as a statement of its own has an entry.",
        "technique": "CrossHair+z3 symbolic execution of the real writer methods (inductive invariant step) and of the "
                     "write handlers on recording stand-ins",
        "level_text": "The invariant step is solver-decided for all statement texts up to the bound from a case-split set "
                      "of writer states; igraph-driven handlers (if/switch/loop writers) are only covered by the "
                      "enumerated validation.",
        "level_note": "Trusted: CrossHair, z3. Shape-dependent errors of igraph-driven handlers are outside the claim.",
        "assumptions": ["writer states case-split over 5 representative outputs x 4 indents",
                        "flag_CalcValue/-Variable writers not encoded (Enum construction under CrossHair)"],
    },
    "C10": {
        "x": ["harness.hC10"],
        "extra": ["harness.pC10.run"],
        "level": "other",
        "explanation": "Engine X: (S1) the back end of compile() raises nothing but SsbCompilerError on every labelled "
                       "list up to the bound; (S3) the exception funnel of compile() over symbolic __context__ chains; "
                       "(S4) the attribute parser answers for every text; (S5) the literal readers raise only "
                       "documented types on every DECIMAL token text. Enumerated part (E4): every rejection rule of the "
                       "property at depth 0-2 placements, macro and import graph errors (scratch directories) and seeded "
                       "token corruptions, each run through the public compile() and judged by exception type. "
                       "'Every input text' cannot be solver-decided (ANTLR) and is not claimed.",
        "technique": "CrossHair+z3 symbolic execution of back end / exception funnel / attribute parser / literal "
                     "readers; enumerated statically-invalid programs through the public API",
        "level_text": "Totality of the non-ANTLR stages is solver-decided within bounds; the static rejection rules are "
                      "enumerated with all placements up to depth 2.",
        "level_note": "Trusted: CrossHair, z3. The token-level input space (ANTLR lexer/parser) is outside the claim.",
        "assumptions": ["rejection rules enumerated, not symbolic", "exception types outside the four deliberate ones are "
                        "not claimed to be funnelled"],
    },
    "C03": {
        "x": ["harness.hC03"],
        "extra": ["harness.pC03.run"],
        "level": "other",
        "explanation": "Engine X: the real back end of compile() (routine_op_offsets_are_ordered, strip_last_label, "
                       "LabelFinalizer, OpsLabelJumpToRemover) is executed symbolically on labelled op lists of every "
                       "kind sequence up to the bound, with symbolic label ids (defined / undefined / shared) and "
                       "symbolic offset gaps; post: unique offsets, target-last and in-range for every jump-carrying op, "
                       "no pseudo op left, undefined label <=> SsbCompilerError, non-alias routines non-empty. The "
                       "closure predicate is also evaluated on all real compilation results of F1-F5 (a failing result is a "
                       "replayable violation); S1b covers 5-element lists over a reduced alphabet.",
        "technique": "CrossHair+z3 symbolic execution of the real label/jump back end over all kind sequences "
                     "(case split) with symbolic label ids and offsets",
        "level_text": "All labelled lists up to 3 (quick) / 4 (thorough) elements are covered by the solver; longer "
                      "lists only through the enumerated compilation results.",
        "level_note": "Trusted: CrossHair, z3. The input model (what the visitors can hand to the back end) is validated "
                      "against real compilation results each run.",
        "assumptions": ["labels are shared objects per name with ids 0..2", "routine ids with gaps are outside the claim"],
    },
    "C07": {
        "x": ["harness.hC07"],
        "extra": ["harness.pC07.run"],
        "level": "other",
        "explanation": "Engine X on the whole real pipeline: SsbScriptSsbDecompiler.convert() (incl. the label resolver) is "
                       "executed symbolically on routine sets whose offsets, gaps and jump targets are symbolic; the "
                       "text, concrete on every path, is compiled by the real SsbScriptSsbCompiler (ANTLR, untraced) "
                       "and the result is compared with the input while offsets are still symbolic: same routines, "
                       "kinds, targets, opcodes, parameters, and every jump parameter denotes the corresponding op. "
                       "Larger inputs (family F6) are round-tripped concretely and compared op for op (replayable violations).",
        "technique": "CrossHair+z3 symbolic execution of the real SsbScript decompiler composed with the real "
                     "SsbScript compiler (untraced stage), case-split over opcode kinds and layouts",
        "level_text": "All offsets/gaps/targets within the bounds are covered by the solver for each opcode-kind "
                      "combination; parameter values are C04's subject.",
        "level_note": "Trusted: CrossHair, z3, ANTLR runtime executed concretely. Jump ops whose jump parameter is not "
                      "the last one are outside the claim.",
        "assumptions": ["opcode kinds and layouts enumerated by case split, offsets/targets symbolic"],
    },
    "C15": {
        "x": ["harness.hC15"],
        "extra": ["harness.pC15.run"],
        "engines": ["engine-t"],
        "engine": "engine-x",
        "level": "other",
        "explanation": "Engine X: the real build_ops/build_routines_json of the compile command composed with the real "
                       "read_ops/read_routines of the decompile command over symbolic compiled routine sets (internal "
                       "offsets with symbolic gaps, symbolic jump flags/targets), every documented argument type and "
                       "routine type, all paths confirmed within the bounds. End to end (enumerated programs): both "
                       "commands run as subprocesses, exit status, documented JSON structure, jump numbering, and z3 "
                       "(Engine T) decides that compile(decompileCLI(compileCLI(p))) behaves like p on all paths.",
        "technique": "CrossHair+z3 on the real CLI (de)serialisers (numbering lemma, argument and routine types); z3 "
                     "BMC trace equivalence for the CLI round trip of enumerated programs",
        "level_text": "Numbering/typing lemmas are solver-decided for all values within the bounds; the end-to-end part "
                      "is translation validation per generated program.",
        "level_note": "Trusted: CrossHair, z3, spec/es_sem.py. Settings-file validation messages are outside the claim. "
                      "Decompiler defects are reported under the C02 input classes.",
        "assumptions": ["json.dumps/loads between the commands is the identity on the data model used",
                        "program dimension of the end-to-end part enumerated"],
    },
    "C05": {
        "x": ["harness.hC05"],
        "extra": ["harness.pC05.run"],
        "engines": ["engine-t"],
        "engine": "engine-t",
        "level": "translation_validation",
        "explanation": "Engine T: for every program of family F5 (all labelled DAGs on <=3/4 macros x every definition "
                       "order x call orders, same-file and imported layouts written to a scratch directory) the real "
                       "compiler's output is compared, per routine and for all outcome sequences (Q1/Q2), with the "
                       "reference semantics of the program in which every call is inlined (parameters substituted, "
                       "return -> end of the expansion, labels private). A rejected acyclic program violates the "
                       "totality clause. Expansion/import lemmas over symbolic blueprints are Engine X obligations.",
        "technique": "z3 BMC trace equivalence between macro-expanded compiler output and the inlined reference "
                     "semantics, per enumerated macro DAG/order/layout",
        "level_text": "All DAGs/orders up to the bound are enumerated exhaustively; behaviour per program is "
                      "solver-decided on all paths.",
        "level_note": "Trusted: spec/es_sem.py inlining semantics, z3. Imports through symlinks are outside the claim.",
        "assumptions": ["macro-graph dimension enumerated (exhaustive up to 3/4 macros)"],
    },
    "C02": {
        "x": ["harness.hC02"],
        "extra": ["harness.pC02.run"],
        "engines": ["engine-t"],
        "engine": "engine-t",
        "level": "translation_validation",
        "explanation": "Engine T per input: x ranges over the renumbered compiler output of families F1-F4; the real "
                       "decompiler's text is compiled by the real compiler and z3 decides, per routine, trace "
                       "equivalence of the SSB machine on x and on compile(decompile(x)) for all outcome sequences "
                       "(Q1) with completeness threshold (Q2); routine tables compared directly. A second, "
                       "compiler-independent leg reads the decompiled text's parse tree into the reference AST "
                       "(spec/es_reader.py), gives it the reference semantics (spec/es_sem.py) and decides the same "
                       "equivalence against x. The structuring "
                       "passes run on igraph and are not executed symbolically: the routine-set dimension is "
                       "enumerated. Inputs in the recorded known-finding classes are reported as KNOWN-FINDING. "
                       "Engine X: the decompiler's condition / switch / case / assignment printers against the reference "
                       "spelling and reading for symbolic integer parameters, and the label resolver on symbolic offsets.",
        "technique": "z3 BMC trace equivalence between input routines and (a) compile(decompile(input)), (b) the "
                     "reference semantics of the decompiled text, per enumerated input",
        "level_text": "Per input, equality of behaviour on all paths is solver-decided; the input space is a "
                      "generated family, so this is translation validation, not a proof over all routine sets.",
        "level_note": "Trusted: spec/ssb_machine.py, spec/es_sem.py + spec/es_reader.py, z3, the ANTLR parser, and the "
                      "compiler for leg (a) (validated against the reference semantics by C01). Known decompiler "
                      "defects are listed by input class.",
        "assumptions": ["routine-set dimension enumerated", "leg (a) reads the text with the real compiler (checked by C01)",
                        "leg (b) is skipped for the SsbScript fallback text (a different language; leg (a) covers it)"],
    },
    "C06": {
        "x": ["harness.hC06"],
        "extra": ["harness.pC06.run"],
        "engines": ["engine-t"],
        "engine": "engine-t",
        "level": "other",
        "explanation": "E4 (enumerated inputs F6: compiler output of F1-F4 and seeded raw well-formed op lists): the "
                       "real convert() must return (text, map) within the time limit; a fallback answer (marker line) "
                       "is compiled by the real ExplorerScript compiler and compared with the input op for op; for inputs "
                       "that decompile structurally the writer is then made to fail after the real structuring passes ran, "
                       "and the forced fallback answer must still be the input op for op. "
                       "Solver-decided parts (marker parsing for all bodies, exception funnel, fallback exactness over "
                       "symbolic op lists) are Engine X obligations.",
        "technique": "CrossHair symbolic execution of marker parsing / exception funnel / SsbScript round trip; "
                     "enumerated totality over generated routine sets",
        "level_text": "Totality over routine sets cannot be solver-decided (igraph); it is enumerated and stated as "
                      "such. Marker and fallback exactness are solver-decided within bounds.",
        "level_note": "Trusted: CrossHair, z3. Known decompiler defects (raises / non-termination) are listed by input "
                      "class or call site in known_findings.json.",
        "assumptions": ["routine-set dimension enumerated"],
    },
    "C01": {
        "x": [],
        "extra": ["harness.pC01.run"],
        "engines": ["engine-t"],
        "engine": "engine-t",
        "level": "translation_validation",
        "explanation": "Engine T: every program of the generated families F1-F4 is compiled from text by the real "
                       "ExplorerScriptSsbCompiler; per routine, z3 decides trace equivalence between the SSB machine "
                       "model of the compiled ops and the reference semantics of the source for ALL outcome sequences "
                       "of all tests (Q1 unsat) with a completeness-threshold query (Q2 unsat: no loop-free product "
                       "path of length K). The program dimension is enumerated (exhaustive construct family + seeded "
                       "random nesting), the behavioural quantifier is solver-decided.",
        "technique": "z3 bounded model checking of trace equivalence (compiled ops vs reference semantics) with "
                     "completeness threshold, per generated program",
        "level_text": "Translation validation per program: for each compiled routine the solver proves equality of "
                      "operation/test sequences for every outcome of every test at any path length. Programs outside "
                      "the families are not covered.",
        "level_note": "Trusted: spec/es_sem.py (my reading of docs/language_spec.rst), spec/ssb_machine.py (the machine "
                      "of the C01 statement), z3. Programs are enumerated, not symbolic (ANTLR cannot be executed "
                      "symbolically).",
        "assumptions": ["program dimension enumerated (families F1-F4), behaviour solver-decided",
                        "ops spelled with reserved opcode names are outside the claim"],
    },
    "C17": {
        "x": [],
        "extra": ["harness.pC17.run"],
        "engines": ["engine-r"],
        "engine": "engine-r",
        "level": "other",
        "explanation": "Engine R: every rule of the live Pygments token table (ExplorerScriptLexer()._tokens, read from "
                       "/repo at run time) is translated to a z3 regular expression; z3 decides (R1) that no rule of a "
                       "reachable state accepts the empty word (progress => termination), (R2) that in every reachable "
                       "state every non-empty text has a matching rule at its first position (no Error token for any "
                       "text - stronger than the property, which only speaks about accepted sources: when it fails, a "
                       "witness is reported only if it can be completed into a source the real compiler accepts and the "
                       "real lexer emits an Error token for it, with a second query restricted to the grammar's string "
                       "bodies), and (R3) that every action emits the whole match: plain token types do; for `bygroups` "
                       "z3 decides that no part of the rule outside groups 1..n can match a non-empty text; every "
                       "transition is a push/pop of an existing state. Under these Pygments' loop yields consecutive "
                       "slices. Unbounded in text length. Replays that run the real lexer use child processes with a "
                       "time limit. The translator is validated against the real `re` "
                       "on sample strings each run.",
        "technique": "z3 regex-theory queries (language emptiness / inclusion) over the live lexer table",
        "level_text": "Proof-like for all texts of any length, within Engine R's regex subset; stated for "
                      "get_tokens_unprocessed (get_tokens' stripnl/ensurenl preprocessing is Pygments' own).",
        "level_note": "Trusted: Pygments' RegexLexer loop, z3's sequence/regex theory, the sre->z3 translator "
                      "(differentially validated). Unicode categories approximated by ASCII cores (sound direction).",
        "assumptions": ["Pygments RegexLexer.get_tokens_unprocessed loop as documented",
                        "get_tokens() option preprocessing (stripnl, ensurenl) is outside the claim"],
    },
    "C04": {
        "x": ["harness.hC04"],
        "extra": ["harness.pC04.validate_tokens"],
        "level": "other",
        "explanation": "Engine X: CrossHair+z3 symbolic execution of the real printers (repr_string, "
                       "SsbOpParamLanguageString/ConstString/FixedPoint/PositionMarker.__str__, the simple-op write "
                       "handler) composed with the real readers (singleline/multiline_string_literal, from_str, "
                       "exps_int, parse_position_marker_arg) over symbolic strings, digit strings, indents and quote "
                       "preferences; the lexer is represented by character-loop token predicates that are "
                       "differential-tested against the real ANTLR lexer; counterexamples replayed natively.",
        "technique": "CrossHair+z3 symbolic execution of printer∘reader round trips on symbolic strings/numerals "
                     "(bounded length, case-split), native replay",
        "level_text": "Within the stated string lengths / digit counts every value is covered by the solver (all paths "
                      "confirmed); known-defect input classes are excluded by committed predicates and re-checked "
                      "separately. Longer strings are outside the claim.",
        "level_note": "Trusted: CrossHair's str/int models, z3; token predicates stand in for the ANTLR lexer "
                      "(validated against it). Known findings listed in known_findings.json.",
        "assumptions": ["ANTLR lexer represented by spec/tokens.py predicates", "strings longer than the bound not covered"],
    },
    "C14": {
        "x": ["harness.hC14"],
        "extra": [],
        "level": "other",
        "explanation": "Engine X: CrossHair+z3 symbolic execution of the real SourceMap.serialize/deserialize/"
                       "rewrite_offsets over symbolic maps and symbolic injective offset mappings; every condition "
                       "explored over all paths within the bounds listed per obligation; counterexamples replayed "
                       "natively (real json) before being reported.",
        "technique": "CrossHair+z3 symbolic execution of the real SourceMap code (bounded sizes, case-split), "
                     "native replay",
        "level_text": "Every condition is explored over all paths by CrossHair/z3 within the stated bounds (table "
                      "sizes, key ranges, mapping size); within them the round trip and the rewrite agree with the "
                      "reference for every value. Nothing is claimed beyond the bounds.",
        "level_note": "Trusted: CrossHair's models of dict/list/str/int, z3, the JSON data-model stub (validated "
                      "natively on replay). Non-injective mappings and pretty=True are outside the claim.",
        "assumptions": ["json.dumps/loads modelled by the JSON data-model contract inside the symbolic run",
                        "non-injective offset mappings are outside the claim"],
    },
}

NOT_APPLICABLE = {
    "C12": "concurrency: no engine of this family executes Python threads symbolically; interleavings inside igraph/ANTLR "
           "C/static caches cannot be encoded from source (DESIGN.md §3)",
    "C13": "shape of igraph-driven structuring output: the flow graph lives in a C object, nothing symbolic to quantify "
           "over and nothing for a solver to decide per input; would be plain enumeration (DESIGN.md §3)",
}
