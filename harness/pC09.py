"""C09 part E3 — decompile-time source maps of concrete inputs (model validation of S1/S2; raises nothing by itself)."""
from __future__ import annotations

import copy
from typing import Any

from spec import es_ast
from spec.families import programs, f6_raw, build_raw
from vlib import trun
from harness import pC02


def task(name: str, item: Any) -> dict[str, Any]:
    from harness.pC01 import compile_text

    if isinstance(item, tuple) and item and item[0] == "raw":
        infos, ops, named = build_raw(item)
    else:
        try:
            c = compile_text(es_ast.to_text(item))
        except Exception as e:  # noqa
            return {"status": "rejected", "what": type(e).__name__}
        infos, ops, named = c.routine_infos, pC02.renumber(c.routine_ops), c.named_coroutines
    if pC02.well_formed(ops) is not None:
        return {"status": "rejected", "what": "not well-formed"}
    try:
        text, smap = pC02.decompile(copy.deepcopy(infos), copy.deepcopy(ops), named)
    except Exception as e:  # noqa
        return {"status": "rejected", "what": "decompiler raised (C06's subject)"}
    offsets = {op.offset for r in ops for op in r}
    lines = text.split("\n")
    n = 0
    for off, m in smap:
        n += 1
        if off not in offsets:
            return {"status": "violation", "kind": "map-key", "program": item,
                    "what": f"source-map key {off} is not the offset of an input op", "witness": {"text": text[:800]}}
        if not (0 <= m.line < len(lines)) or m.column >= len(lines[m.line]) or lines[m.line][m.column] == " " \
                or lines[m.line][:m.column].strip(" ") not in ("", "}"):
            return {"status": "violation", "kind": "map-position", "program": item,
                    "what": f"entry {off} -> line {m.line} column {m.column} does not point at the start of a statement",
                    "witness": {"text": text[:1200]}}
    # third clause: compiling the emitted text places the corresponding op on the same line; and an op that is printed
    # as its own statement has an entry. Ops correspond by position when the recompilation is op for op the input,
    # otherwise by their label when that is unique on both sides.
    if not text.startswith("//?: is-ssb-script: true"):
        bad = _against_compile_map(ops, text, {off: (m.line, m.column) for off, m in smap},
                                   by_label=not pC02.input_classes(infos, ops))
        if bad is not None:
            kind, what = bad
            return {"status": "violation", "kind": kind, "program": item, "what": what, "witness": {"text": text[:1500]},
                    "classes": pC02.input_classes(infos, ops)}
    return {"status": "ok", "routines": 0, "equal": 0, "sample": {"entries": n, "lines": len(lines)}}


_OWN = {"Return": "return;", "End": "end;", "Hold": "hold;", "Jump": "jump @"}


def _against_compile_map(ops: list[list[Any]], text: str, md: dict[int, tuple[int, int]],
                         by_label: bool) -> tuple[str, str] | None:
    import collections
    from harness.pC01 import compile_text
    from harness.pC06 import ops_equal_up_to_offsets
    from spec.ssb_machine import JUMP_OPS, norm_param

    try:
        c2 = compile_text(text)
    except Exception:  # noqa  (C02's subject)
        return None
    lines = text.split("\n")

    def lab(op: Any) -> str:
        ps = list(op.params)[:-1] if op.op_code.name in JUMP_OPS else list(op.params)
        return repr((op.op_code.name, tuple(norm_param(p) for p in ps)))

    pairs: list[tuple[Any, Any]] = []
    if ops_equal_up_to_offsets(ops, c2.routine_ops) is None:
        pairs = [(a, b) for ra, rb in zip(ops, c2.routine_ops) for a, b in zip(ra, rb)]
    elif by_label:  # inputs in a recorded defect class may be printed as a different program: no correspondence
        la = collections.Counter(lab(o) for r in ops for o in r)
        lb = collections.Counter(lab(o) for r in c2.routine_ops for o in r)
        outby = {lab(o): o for r in c2.routine_ops for o in r}
        pairs = [(a, outby[lab(a)]) for r in ops for a in r if la[lab(a)] == 1 and lb[lab(a)] == 1]
    for a, b in pairs:
        mc = c2.source_map.get_op_line_and_col(b.offset)
        if mc is None:
            continue
        d = md.get(a.offset)
        here = lines[mc.line][mc.column:] if 0 <= mc.line < len(lines) else ""
        if d is None:
            nm = a.op_code.name
            own = _OWN.get(nm) or nm
            at_start = lines[mc.line][:mc.column].strip(" ") == ""
            if at_start and (here.startswith(own) if nm in _OWN else (here.startswith(nm + "(") or here.startswith(nm + "<"))):
                kind = "map-missing"
                if nm == "Jump" and any(o.offset == a.params[-1] for r in ops if any(x is a for x in r) for o in r):
                    kind = "map-missing-local-jump"  # recorded finding C09-local-jump-no-entry
                return (kind, f"op {nm}@{a.offset} is printed as its own statement on line {mc.line} ({here[:30]!r}) but has "
                              f"no source-map entry")
            continue
        if d[0] != mc.line:
            return ("map-line", f"op {a.op_code.name}@{a.offset}: the decompiler's map says line {d[0]} "
                                f"({lines[d[0]][d[1]:d[1] + 24]!r}), compiling the emitted text places it on line {mc.line} "
                                f"({here[:24]!r})")
    return None


def classify(r: dict[str, Any]) -> str | None:
    """map-line findings are never excused by an input class; a missing entry only by the context-op class (the statement
    inside `with (..) { return; }` is printed by ctx.py without registration - recorded finding)"""
    if r.get("kind") == "map-line":
        return None
    if r.get("kind") == "map-missing-local-jump":
        return "C09-local-jump-no-entry"
    if r.get("kind") == "map-missing":
        return "C02-ctx-before-special-op" if "ctx-before-special-op" in (r.get("classes") or []) else None
    return pC02.classify(r)


def replay(name: str, item_repr: str, witness: Any) -> bool:
    return task(name, trun.parse_prog(item_repr))["status"] != "violation"


def run(tier: str, seed: int, known: list[dict[str, Any]]) -> dict[str, Any]:
    # thorough: every 2nd program of the (much larger) thorough families - all of them did not finish in 33 min
    items: list[tuple[str, Any]] = [p for i, p in enumerate(programs(tier, seed)) if i % 2 == 0 or p[0].startswith("F4.")]
    items += list(f6_raw(seed, 200 if tier == "quick" else 2000))
    r = trun.run_family("C09", "C09.E3", task, items, known, classify, bounds="F6 inputs: map keys and positions vs the text")
    r["headline"] = f"{r['programs']} concrete inputs: every map entry is keyed by an input offset, points at the first " \
                    f"character of a statement line and agrees on the line with the map of compiling the emitted text; statements " \
                    f"of their own have entries; {r['disagreements_checked']} violations"
    r["obligations"] = r["discharged"] = r["distinct_nontrivial"] = 0
    return r
