"""C09 part E3 — decompile-time source maps of concrete inputs (model validation of S1/S2; raises nothing by itself)."""
from __future__ import annotations

import copy
from typing import Any

from spec import es_ast
from spec.families import programs, f6_raw, build_raw
from vlib import trun
from harness import pC02


def task(name: str, item: Any) -> dict[str, Any]:
    from harness.pC01 import compile_text

    if isinstance(item, tuple) and item and item[0] == "raw":
        infos, ops, named = build_raw(item)
    else:
        try:
            c = compile_text(es_ast.to_text(item))
        except Exception as e:  # noqa
            return {"status": "rejected", "what": type(e).__name__}
        infos, ops, named = c.routine_infos, pC02.renumber(c.routine_ops), c.named_coroutines
    if pC02.well_formed(ops) is not None:
        return {"status": "rejected", "what": "not well-formed"}
    try:
        text, smap = pC02.decompile(copy.deepcopy(infos), copy.deepcopy(ops), named)
    except Exception as e:  # noqa
        return {"status": "rejected", "what": "decompiler raised (C06's subject)"}
    offsets = {op.offset for r in ops for op in r}
    lines = text.split("\n")
    n = 0
    for off, m in smap:
        n += 1
        if off not in offsets:
            return {"status": "violation", "kind": "map-key", "program": item,
                    "what": f"source-map key {off} is not the offset of an input op", "witness": {"text": text[:800]}}
        if not (0 <= m.line < len(lines)) or m.column >= len(lines[m.line]) or lines[m.line][m.column] == " " \
                or lines[m.line][:m.column].strip(" ") not in ("", "}"):
            return {"status": "violation", "kind": "map-position", "program": item,
                    "what": f"entry {off} -> line {m.line} column {m.column} does not point at the start of a statement",
                    "witness": {"text": text[:1200]}}
    return {"status": "ok", "routines": 0, "equal": 0, "sample": {"entries": n, "lines": len(lines)}}


def replay(name: str, item_repr: str, witness: Any) -> bool:
    return task(name, trun.parse_prog(item_repr))["status"] != "violation"


def run(tier: str, seed: int, known: list[dict[str, Any]]) -> dict[str, Any]:
    items: list[tuple[str, Any]] = [p for i, p in enumerate(programs(tier, seed)) if tier != "quick" or i % 2 == 0]
    items += list(f6_raw(seed, 200 if tier == "quick" else 4000))
    r = trun.run_family("C09", "C09.E3", task, items, known, pC02.classify, bounds="F6 inputs: map keys and positions vs the text")
    r["headline"] = f"{r['programs']} concrete inputs: every map entry is keyed by an input offset and points at the first " \
                    f"character of a statement line, {r['disagreements_checked']} violations"
    r["obligations"] = r["discharged"] = r["distinct_nontrivial"] = 0
    return r
