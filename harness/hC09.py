"""C09 — decompile-time source map: line-accounting inductive step (S1) and the call protocol of the statement
writers (S2), on the real writer methods / write handlers."""
from __future__ import annotations

from typing import Any

from explorerscript.source_map import SourceMapBuilder
from explorerscript.ssb_converting.ssb_data_types import (SsbOperation, SsbOpCode, DungeonModeConstants,
                                                         SsbOpParamConstant, SsbOpParamConstString,
                                                         SsbOpParamLanguageString, NUMBER_OF_SPACES_PER_INDENT)
from explorerscript.ssb_converting.util import Blk
from vlib.hx import verdict, CASE, NATIVE, tb

LAST_DETAIL: Any = None
_c = CASE or 0
WHICH = _c % 2  # 0: ExplorerScript decompiler, 1: SsbScript decompiler
SLEN = tb(3, 4)
STATES = ["", "ab", "x\n", "\n\n    y", "a\nb\n\n"]  # writer states (any number of lines; the step only depends on I)
STATE = STATES[(_c // 2) % 5]
C_IND = (_c // 10) % 4


def state_cases() -> list[int]:
    return [w + 2 * s_ + 10 * i for w in (0, 1) for s_ in range(5) for i in range(4)]


def _writer(output: str, indent: int) -> Any:
    """a decompiler object in an arbitrary state satisfying the invariant I: line == 1 + number of newlines written"""
    if WHICH == 0:
        from explorerscript.ssb_converting.ssb_decompiler import ExplorerScriptSsbDecompiler

        d: Any = ExplorerScriptSsbDecompiler([], [], [], "$P", DungeonModeConstants("a", "b", "c", "d"))
        d.smb = SourceMapBuilder()
    else:
        from explorerscript.ssb_script.ssb_converting.ssb_decompiler import SsbScriptSsbDecompiler

        d = SsbScriptSsbDecompiler([], [], [])
        d._source_map_builder = SourceMapBuilder()
    d._output = output
    d._line_number = 1 + output.count("\n")
    d.indent = indent
    return d


def _inv(d: Any) -> bool:
    return d._line_number == 1 + d._output.count("\n") and d.indent >= 0


def h_line_step(output: str, indent: int, s: str, line: bool) -> bool:
    """
    pre: output == STATE and indent == C_IND and len(s) <= SLEN
    post: _
    """
    d = _writer(STATE, indent)
    d.write_stmnt(s, line)
    ok = _inv(d) and d._output.startswith(STATE) and d._output.endswith(s)
    return verdict(ok)


def h_blk_step(output: str, indent: int, s: str, braces: bool) -> bool:
    """
    pre: output == STATE and indent == C_IND and len(s) <= 2
    post: _
    """
    d = _writer(STATE, indent)
    with Blk(d, braces):
        inner_ok = d.indent == indent + 1 and _inv(d)
        d.write_stmnt(s)
    return verdict(inner_ok and d.indent == indent and _inv(d))


def h_entry_points_at_statement(output: str, indent: int, s: str, off: int) -> bool:
    """
    pre: output == STATE and indent == C_IND and 1 <= len(s) <= SLEN and 0 <= off <= 3
    post: _
    """
    # source_map_add_opcode(off) immediately followed by write_stmnt(s, True): the entry under `off` is the 0-based
    # line and the column where the first line of s starts in the emitted text
    d = _writer(STATE, indent)
    if WHICH == 0:
        d.source_map_add_opcode(off)
        smb = d.smb
    else:
        d._source_map_builder.add_opcode(off, d._line_number, d.indent * NUMBER_OF_SPACES_PER_INDENT)  # as _read_op does
        smb = d._source_map_builder
    d.write_stmnt(s, True)
    m = smb.build().get_op_line_and_col(off)
    if m is None:
        return verdict(False)
    # by S1a the text is now STATE + LF + indentation + s: the statement begins on 0-based line L, column C
    L = STATE.count("\n") + 1
    Ccol = indent * 4
    ok = d._output == STATE + "\n" + " " * Ccol + s
    ok = ok and m.line == L and m.column == Ccol
    return verdict(ok and _inv(d))


# ---- S2: call protocol of statement-writing handlers --------------------------------------------------------------
class _Rec:
    """recording stand-in for the decompiler: the order of source_map_add_opcode / write_stmnt calls"""

    def __init__(self, indent: int) -> None:
        self.indent = indent
        self.log: list[tuple[str, Any]] = []
        self.performance_progress_list_var_name = "$P"
        self.dungeon_mode_constants = DungeonModeConstants("a", "b", "c", "d")

    def source_map_add_opcode(self, off: int) -> None:
        self.log.append(("map", off))

    def source_map_add_position_mark(self, length: int, p: Any) -> None:
        self.log.append(("pos", length))

    def write_stmnt(self, s: str, line: bool = True) -> None:
        self.log.append(("write", line))

    def write_return(self) -> None:
        self.write_stmnt("return;")

    def write_end(self) -> None:
        self.write_stmnt("end;")

    def write_hold(self) -> None:
        self.write_stmnt("hold;")


class _V:
    def __init__(self, op: Any):
        self._op = op

    def __getitem__(self, k: str) -> Any:
        return self._op

    def out_edges(self) -> list[Any]:
        return []


HANDLER = (_c // 2) % 5


def _protocol_ok(log: list[tuple[str, Any]], off: int) -> bool:
    maps = [i for i, e in enumerate(log) if e[0] == "map"]
    writes = [i for i, e in enumerate(log) if e[0] == "write" and e[1]]
    if len(maps) != 1 or log[maps[0]][1] != off or not writes:
        return False
    # the entry is registered before the first statement line is started, with no write in between
    return maps[0] < writes[0] and all(log[i][0] != "write" for i in range(maps[0]))


def h_protocol(off: int, a: int, b: int, c: int, indent: int) -> bool:
    """
    pre: 0 <= indent <= 3 and 0 <= b <= 4 and 0 <= a <= 2 and 0 <= c <= 2 and 0 <= off <= 3
    post: _
    """
    from explorerscript.ssb_converting.decompiler.write_handlers.simple_ops.simple import SimpleSimpleOpWriteHandler
    from explorerscript.ssb_converting.decompiler.write_handlers.simple_ops.keyword import KeywordSimpleOpWriteHandler
    from explorerscript.ssb_converting.decompiler.write_handlers.simple_ops.flag import FlagSimpleOpWriteHandler

    rec = _Rec(indent)
    if HANDLER == 0:
        op = SsbOperation(off, SsbOpCode(-1, "anything"), [a, SsbOpParamConstString("x\ny"), SsbOpParamConstant("K")])
        SimpleSimpleOpWriteHandler(_V(op), rec, None).write_content()  # type: ignore
    elif HANDLER == 1:
        names = ["Return", "End", "Hold"]
        op = SsbOperation(off, SsbOpCode(-1, names[b % 3]), [])
        KeywordSimpleOpWriteHandler(_V(op), rec, None).write_content()  # type: ignore
    elif HANDLER == 2:
        # (flag_CalcValue/-Variable call SsbCalcOperator(value): CrossHair cannot construct that Enum - not encoded)
        flags = [("flag_CalcBit", [SsbOpParamConstant("$V"), a, c]), ("flag_Clear", [SsbOpParamConstant("$V")]),
                 ("flag_Set", [SsbOpParamConstant("$V"), c]), ("flag_SetDungeonMode", [a, b % 4]),
                 ("flag_SetScenario", [SsbOpParamConstant("$S"), a, c])]
        nm, ps = flags[b % 5]
        op = SsbOperation(off, SsbOpCode(-1, nm), ps)
        FlagSimpleOpWriteHandler(_V(op), rec, None).write_content()  # type: ignore
    elif HANDLER == 3:
        op = SsbOperation(off, SsbOpCode(-1, "anything"), [a])
        SimpleSimpleOpWriteHandler(_V(op), rec, None).write_content("actor 3")  # type: ignore
    else:
        # SsbScript decompiler: the real _read_op on a real object, recording through subclass hooks
        from explorerscript.ssb_script.ssb_converting.ssb_decompiler import SsbScriptSsbDecompiler

        log: list[tuple[str, Any]] = []

        class R(SsbScriptSsbDecompiler):
            def write_stmnt(self, stmnt: str, line: bool = True) -> None:
                log.append(("write", line))
                super().write_stmnt(stmnt, line)

        class B(SourceMapBuilder):
            def add_opcode(self, op_offset: int, line_number: int, column: int) -> Any:
                log.append(("map", op_offset))
                return super().add_opcode(op_offset, line_number, column)

        d = R([], [], [])
        d._source_map_builder = B()
        d.indent = indent
        d._read_op(SsbOperation(off, SsbOpCode(-1, "anything"), [a, SsbOpParamLanguageString({"english": "x\ny"})]))
        return verdict(_protocol_ok(log, off))
    return verdict(_protocol_ok(rec.log, off))


def h_fallback_map(which: int, coro: bool, nl_param: bool) -> bool:
    """
    pre: 0 <= which < 8
    post: _
    """
    # whatever makes the structured decompilation fail, the map returned with the SsbScript fallback points at the
    # statements of the RETURNED text (the text starts with the marker / warning header)
    import explorerscript.ssb_converting.ssb_decompiler as D
    from explorerscript.ssb_converting.ssb_data_types import SsbRoutineInfo, SsbRoutineType, SsbCoroutine
    from harness.hC06 import EXC

    exc: Any = AssertionError
    for k in range(8):
        if which == k:
            exc = EXC[k]

    class G:
        def __init__(self, *a: Any, **kw: Any) -> None:
            raise exc("forced")

    og = D.SsbGraphMinimizer
    D.SsbGraphMinimizer = G  # type: ignore
    try:
        p0: Any = SsbOpParamConstString("x\ny") if nl_param else 4
        ops = [[SsbOperation(0, SsbOpCode(-1, "first"), [p0]), SsbOperation(1, SsbOpCode(-1, "Jump"), [0])],
               [SsbOperation(2, SsbOpCode(-1, "second"), []), SsbOperation(3, SsbOpCode(-1, "End"), [])]]
        kind = SsbRoutineType.COROUTINE if coro else SsbRoutineType.GENERIC
        coros = [SsbCoroutine(0, "CA"), SsbCoroutine(1, "CB")] if coro else []
        d = D.ExplorerScriptSsbDecompiler([SsbRoutineInfo(kind, 0), SsbRoutineInfo(kind, 0)], ops, coros, "$P",
                                          DungeonModeConstants("a", "b", "c", "d"))
        text, sm = d.convert()
    finally:
        D.SsbGraphMinimizer = og  # type: ignore
    lines = text.split("\n")
    want = {0: "first(", 1: "Jump(", 2: "second(", 3: "End("}
    ok = text.startswith("//?: is-ssb-script: true\n")
    n = 0
    for off, m in sm:
        n += 1
        ok = ok and off in want and 0 <= m.line < len(lines) and lines[m.line][m.column:].startswith(want[off])
    return verdict(ok and n == 4)


OBLIGATIONS = [
    {"id": "C09.S1a", "module": __name__, "func": "h_line_step",
     "what": "inductive step: from any writer state with line == 1 + newlines written, write_stmnt(s, line) keeps the "
             "invariant for every statement text (embedded newlines included); both decompilers",
     "cases": state_cases(), "timeout": {"quick": 240, "thorough": 1200},
     "bounds": {"quick": "5 writer states x indent 0..3 x both decompilers (case split); statement text |s| <= 3 symbolic", "thorough": "|s| <= 4"},
     "encodes": ["explorerscript.ssb_converting.ssb_decompiler.ExplorerScriptSsbDecompiler.write_stmnt",
                 "explorerscript.ssb_converting.ssb_decompiler.ExplorerScriptSsbDecompiler.write_line",
                 "explorerscript.ssb_script.ssb_converting.ssb_decompiler.SsbScriptSsbDecompiler.write_stmnt",
                 "explorerscript.ssb_script.ssb_converting.ssb_decompiler.SsbScriptSsbDecompiler._write_line"]},
    {"id": "C09.S1b", "module": __name__, "func": "h_blk_step",
     "what": "Blk (with and without braces) keeps the invariant and restores the indent",
     "cases": state_cases(), "timeout": {"quick": 240, "thorough": 900}, "bounds": "5 writer states x indent 0..3 x both decompilers (case split), |s| <= 2",
     "encodes": ["explorerscript.ssb_converting.util.Blk.__enter__", "explorerscript.ssb_converting.util.Blk.__exit__"]},
    {"id": "C09.S1c", "module": __name__, "func": "h_entry_points_at_statement",
     "what": "source_map_add_opcode(off) immediately followed by write_stmnt(s, True): the entry's 0-based line and column "
             "are where s begins in the emitted text",
     "cases": state_cases(), "timeout": {"quick": 300, "thorough": 1800},
     "bounds": {"quick": "5 writer states x indent 0..3 x both decompilers (case split); 1 <= |s| <= 3 symbolic, any offset", "thorough": "|s| <= 4"},
     "encodes": ["explorerscript.ssb_converting.ssb_decompiler.ExplorerScriptSsbDecompiler.source_map_add_opcode",
                 "explorerscript.ssb_converting.ssb_decompiler.ExplorerScriptSsbDecompiler.write_stmnt",
                 "explorerscript.source_map.SourceMapBuilder.add_opcode"]},
    {"id": "C09.S2", "module": __name__, "func": "h_protocol",
     "what": "each statement-writing handler that runs without graph state registers the op's offset exactly once, before "
             "the first line of the statement is started",
     "cases": [2 * h for h in range(5)], "timeout": {"quick": 200, "thorough": 600},
     "bounds": "handlers: simple op, keyword ops, flag ops, simple op with inline context, SsbScript _read_op (case split); "
               "symbolic offset in 0..3, integer parameters in 0..2, indent 0..3",
     "encodes": ["explorerscript.ssb_converting.decompiler.write_handlers.simple_ops.simple.SimpleSimpleOpWriteHandler.write_content",
                 "explorerscript.ssb_converting.decompiler.write_handlers.simple_ops.keyword.KeywordSimpleOpWriteHandler.write_content",
                 "explorerscript.ssb_converting.decompiler.write_handlers.simple_ops.flag.FlagSimpleOpWriteHandler.write_content",
                 "explorerscript.ssb_script.ssb_converting.ssb_decompiler.SsbScriptSsbDecompiler._read_op"],
     "stubs": ["decompiler and graph vertex replaced by recording stand-ins; igraph-driven handlers are outside the claim"]},
    {"id": "C09.S3", "module": __name__, "func": "h_fallback_map",
     "what": "fallback output: the source map returned together with the marked SsbScript text has one entry per op and "
             "each points at that op's statement in the returned text (header lines included), for every exception type "
             "that triggers the fallback, generic and coroutine routine sets, with and without a multi-line parameter",
     "timeout": {"quick": 200, "thorough": 600},
     "bounds": "8 exception types x generic/coroutine x multi-line parameter (all symbolic), fixed 2-routine input",
     "encodes": ["explorerscript.ssb_converting.ssb_decompiler.ExplorerScriptSsbDecompiler.convert",
                 "explorerscript.ssb_script.ssb_converting.ssb_decompiler.SsbScriptSsbDecompiler.convert",
                 "explorerscript.ssb_script.ssb_converting.ssb_decompiler.SsbScriptSsbDecompiler._read_op"],
     "stubs": ["SsbGraphMinimizer replaced by a stub raising the chosen exception"]},
]
