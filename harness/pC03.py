"""C03 part E5 — the closure predicate on real compilation results of the generated families (model validation of
the S1 preconditions; no solver question, so it cannot raise a violation by itself)."""
from __future__ import annotations

from typing import Any

from spec import es_ast, ssb_machine
from spec.families import programs, f5_macros
from vlib import trun


def closure_error(c: Any) -> str | None:
    ops = c.routine_ops
    if not (len(c.routine_infos) == len(c.named_coroutines) == len(ops)):
        return "routine info / coroutine-name / op tables differ in length"
    offs = [op.offset for r in ops for op in r]
    if len(set(offs)) != len(offs):
        return "duplicate offsets"
    for r in ops:
        for op in r:
            if type(op).__name__ != "SsbOperation":
                return f"pseudo op {type(op).__name__} remains"
            if op.op_code.name in ssb_machine.JUMP_OPS:
                if not op.params or not isinstance(op.params[-1], int) or op.params[-1] not in offs:
                    return f"{op.op_code.name}@{op.offset}: dangling or missing target"
                if ssb_machine.JUMP_OPS[op.op_code.name] != len(op.params) - 1:
                    return f"{op.op_code.name}@{op.offset}: jump parameter is not where the index table says"
    return None


def task(name: str, prog: dict[str, Any]) -> dict[str, Any]:
    from harness import pC05, pC01

    if "files" in prog or prog.get("macros"):
        # compile through the macro driver (scratch directory) to get the real result
        import os, shutil, tempfile

        d = tempfile.mkdtemp(prefix="verif_c03_")
        try:
            for rel, sub in prog.get("files", {}).items():
                path = os.path.join(d, rel)
                os.makedirs(os.path.dirname(path), exist_ok=True)
                with open(path, "w", encoding="utf-8") as fh:
                    fh.write(es_ast.to_text({"imports": sub.get("imports", []), "macros": sub.get("macros", []), "routines": []}))
            text = es_ast.to_text({"imports": prog.get("imports", []), "macros": prog.get("macros", []),
                                   "routines": prog["routines"]})
            try:
                c = pC01.compile_text(text, os.path.join(d, "main.exps"))
            except Exception as e:  # noqa
                return {"status": "rejected", "what": type(e).__name__}
        finally:
            shutil.rmtree(d, ignore_errors=True)
    else:
        try:
            c = pC01.compile_text(es_ast.to_text(prog))
        except Exception as e:  # noqa
            return {"status": "rejected", "what": type(e).__name__}
    err = closure_error(c)
    if err:
        # a concrete compilation result that is not closed: replayable on the public API -> violation
        return {"status": "violation", "kind": "closure", "program": prog,
                "what": f"compilation result is not a closed, uniquely addressed op list: {err}",
                "witness": {"text": es_ast.to_text(prog)[:800], "error": err}}
    return {"status": "ok", "routines": 0, "equal": 0, "sample": {"ops": sum(len(r) for r in c.routine_ops)}}


def replay(name: str, prog_repr: str, witness: Any) -> bool:
    return task(name, trun.parse_prog(prog_repr))["status"] != "violation"


def run(tier: str, seed: int, known: list[dict[str, Any]]) -> dict[str, Any]:
    items = list(programs(tier, seed)) + list(f5_macros(tier, seed))
    r = trun.run_family("C03", "C03.E5", task, items, known, None, bounds="F1-F5 compilation results")
    r["headline"] = f"closure predicate holds on {r['programs'] - r['rejected_by_compiler'] - r['disagreements_checked']} real " \
                    f"compilation results of F1-F5, {r['disagreements_checked']} violations"
    r["obligations"] = r["discharged"] = r["distinct_nontrivial"] = 0
    return r
