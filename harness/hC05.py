"""C05 part S4 — import resolution (real ExplorerScriptSsbCompiler._resolve_imported_file) with the file system replaced
by a symbolic set of existing paths (Engine X)."""
from __future__ import annotations

import os
from typing import Any

from explorerscript.error import SsbCompilerError
from vlib.hx import verdict, CASE, NATIVE

LAST_DETAIL: Any = None
_c = CASE or 0
KINDS = ["./x.exps", "../x.exps", "/abs/x.exps", "x.exps", "d/x.exps", "./d/../x.exps", "d/../x.exps", "./d/x.exps"]
IMPORT = KINDS[_c % len(KINDS)]
BASE_DIR = "/proj/scripts"


def h_resolve(e0: bool, e1: bool, e2: bool, e_rel: bool, nlp: int) -> bool:
    """
    pre: 0 <= nlp <= 3
    post: _
    """
    import explorerscript.ssb_converting.ssb_compiler as C

    lookups = ["/lib/one", "/lib/two", "relative/three"][:nlp]
    exists = [e0, e1, e2]
    # candidates, computed independently of the code under test
    norm = os.path.normpath

    def cand_rel() -> str:
        return norm(os.path.join(BASE_DIR, IMPORT))

    def cand_lp(i: int) -> str:
        lp = lookups[i]
        return norm(os.path.join(BASE_DIR, lp, IMPORT)) if not lp.startswith("/") else norm(os.path.join(lp, IMPORT))

    table: dict[str, bool] = {}
    if IMPORT.startswith(".") or IMPORT.startswith("/"):
        table[cand_rel() if not IMPORT.startswith("/") else norm(IMPORT)] = e_rel
    else:
        for i in range(nlp):
            table[cand_lp(i)] = exists[i]

    asked: list[str] = []

    class FakePath:
        """os.path with exists/realpath answered from the symbolic table (no symlinks: realpath = normpath)"""

        def __getattr__(self, name: str) -> Any:
            return getattr(os.path, name)

        @staticmethod
        def exists(p: str) -> bool:
            asked.append(p)
            return table.get(norm(p), False)

        @staticmethod
        def realpath(p: str) -> str:
            return norm(p)

    class FakeOs:
        path = FakePath()

        def __getattr__(self, name: str) -> Any:
            return getattr(os, name)

    orig = C.os
    C.os = FakeOs()  # type: ignore
    try:
        comp = C.ExplorerScriptSsbCompiler("$P", list(lookups))
        comp.imports = [IMPORT]
        try:
            got = comp._resolve_imported_file(BASE_DIR)
            raised = False
        except SsbCompilerError:
            got, raised = [], True
    finally:
        C.os = orig  # type: ignore
    # specification: relative (./ ../) and absolute imports resolve against the importing file's directory resp. as
    # given; all other imports through the lookup paths in the given order, first existing candidate wins; a
    # non-relative import must not contain . or .. components
    if IMPORT.startswith("."):
        want: Any = cand_rel() if e_rel else None
    elif IMPORT.startswith("/"):
        want = norm(IMPORT) if e_rel else None
    elif "." in IMPORT.split("/") or ".." in IMPORT.split("/"):
        want = None
    else:
        want = None
        for i in range(nlp):
            if exists[i]:
                want = cand_lp(i)
                break
    if want is None:
        return verdict(raised)
    return verdict(not raised and got == [want])


def h_param_substitution(p0: int, p1: int, p2: int, va: int, vb: int) -> bool:
    """
    pre: 0 <= p0 <= 3 and 0 <= p1 <= 3 and 0 <= p2 <= 3 and 0 <= va <= 4 and 0 <= vb <= 4
    post: _
    """
    # parameters are substituted simultaneously: a constant named like a macro variable becomes that variable's
    # argument - also when the argument is itself a constant named like ANOTHER variable of this macro (an outer
    # macro passing its own variables on in a different order) - everything else is untouched, the blueprint is not
    from explorerscript.macro import ExplorerScriptMacro
    from explorerscript.source_map import SourceMap
    from explorerscript.ssb_converting.ssb_data_types import SsbOpParamConstant

    names = ["$a", "$b", "$c", "KONST"]
    values: list[Any] = [1, SsbOpParamConstant("$b"), SsbOpParamConstant("$a"), SsbOpParamConstant("$c"), SsbOpParamConstant("OTHER")]

    def pick(i: int, pool: list[Any]) -> Any:
        r = pool[0]
        for k in range(len(pool)):
            if i == k:
                r = pool[k]
        return r

    blue = [SsbOpParamConstant(pick(p0, names)), 5, SsbOpParamConstant(pick(p1, names)), SsbOpParamConstant(pick(p2, names))]
    before = [x if isinstance(x, int) else x.name for x in blue]
    args = {"$a": pick(va, values), "$b": pick(vb, values)}
    m = ExplorerScriptMacro("m", ["$a", "$b"], [], SourceMap.create_empty())
    out = m._process_parameters(list(blue), dict(args))
    ok = len(out) == 4 and out[1] == 5
    for i in (0, 2, 3):
        nm = blue[i].name
        want = args[nm] if nm in args else blue[i]
        ok = ok and (out[i] is want or out[i] == want) and type(out[i]) is type(want)
        if isinstance(want, SsbOpParamConstant):
            ok = ok and out[i].name == want.name
    ok = ok and [x if isinstance(x, int) else x.name for x in blue] == before
    return verdict(ok)


OBLIGATIONS = [
    {"id": "C05.S4", "module": __name__, "func": "h_resolve",
     "what": "import resolution: ./ and ../ imports resolve against the importing file's directory, absolute imports as "
             "given, all others through the lookup paths in their given order (first existing candidate), missing files "
             "and non-relative imports containing . or .. are rejected with SsbCompilerError",
     "cases": list(range(len(KINDS))), "timeout": {"quick": 200, "thorough": 600},
     "bounds": "8 import spellings (case split) x 0-3 lookup paths (absolute and relative) x symbolic existence of every "
               "candidate",
     "encodes": ["explorerscript.ssb_converting.ssb_compiler.ExplorerScriptSsbCompiler._resolve_imported_file"],
     "stubs": ["os.path.exists / os.path.realpath answered from a symbolic table of existing paths (no symlinks: realpath "
               "= normpath); replayed on a real temporary directory by the enumerated part"]},
    {"id": "C05.S2", "module": __name__, "func": "h_param_substitution",
     "what": "macro parameter substitution is simultaneous: constants named like a macro variable are replaced by the "
             "argument, also when arguments are themselves constants named like another variable (swapped / rotated "
             "names of nested calls); other parameters and the blueprint stay untouched",
     "timeout": {"quick": 200, "thorough": 600},
     "bounds": "3 constant parameters chosen from {$a,$b,$c,KONST}, two arguments chosen from {1,$b,$a,$c,OTHER}, all "
               "choices symbolic",
     "encodes": ["explorerscript.macro.ExplorerScriptMacro._process_parameters"]},
]
