"""C05 part S4 — import resolution (real ExplorerScriptSsbCompiler._resolve_imported_file) with the file system replaced
by a symbolic set of existing paths (Engine X)."""
from __future__ import annotations

import os
from typing import Any

from explorerscript.error import SsbCompilerError
from vlib.hx import verdict, CASE, NATIVE

LAST_DETAIL: Any = None
_c = CASE or 0
KINDS = ["./x.exps", "../x.exps", "/abs/x.exps", "x.exps", "d/x.exps", "./d/../x.exps", "d/../x.exps", "./d/x.exps"]
IMPORT = KINDS[_c % len(KINDS)]
BASE_DIR = "/proj/scripts"


def h_resolve(e0: bool, e1: bool, e2: bool, e_rel: bool, nlp: int) -> bool:
    """
    pre: 0 <= nlp <= 3
    post: _
    """
    import explorerscript.ssb_converting.ssb_compiler as C

    lookups = ["/lib/one", "/lib/two", "relative/three"][:nlp]
    exists = [e0, e1, e2]
    # candidates, computed independently of the code under test
    norm = os.path.normpath

    def cand_rel() -> str:
        return norm(os.path.join(BASE_DIR, IMPORT))

    def cand_lp(i: int) -> str:
        lp = lookups[i]
        return norm(os.path.join(BASE_DIR, lp, IMPORT)) if not lp.startswith("/") else norm(os.path.join(lp, IMPORT))

    table: dict[str, bool] = {}
    if IMPORT.startswith(".") or IMPORT.startswith("/"):
        table[cand_rel() if not IMPORT.startswith("/") else norm(IMPORT)] = e_rel
    else:
        for i in range(nlp):
            table[cand_lp(i)] = exists[i]

    asked: list[str] = []

    class FakePath:
        """os.path with exists/realpath answered from the symbolic table (no symlinks: realpath = normpath)"""

        def __getattr__(self, name: str) -> Any:
            return getattr(os.path, name)

        @staticmethod
        def exists(p: str) -> bool:
            asked.append(p)
            return table.get(norm(p), False)

        @staticmethod
        def realpath(p: str) -> str:
            return norm(p)

    class FakeOs:
        path = FakePath()

        def __getattr__(self, name: str) -> Any:
            return getattr(os, name)

    orig = C.os
    C.os = FakeOs()  # type: ignore
    try:
        comp = C.ExplorerScriptSsbCompiler("$P", list(lookups))
        comp.imports = [IMPORT]
        try:
            got = comp._resolve_imported_file(BASE_DIR)
            raised = False
        except SsbCompilerError:
            got, raised = [], True
    finally:
        C.os = orig  # type: ignore
    # specification: relative (./ ../) and absolute imports resolve against the importing file's directory resp. as
    # given; all other imports through the lookup paths in the given order, first existing candidate wins; a
    # non-relative import must not contain . or .. components
    if IMPORT.startswith("."):
        want: Any = cand_rel() if e_rel else None
    elif IMPORT.startswith("/"):
        want = norm(IMPORT) if e_rel else None
    elif "." in IMPORT.split("/") or ".." in IMPORT.split("/"):
        want = None
    else:
        want = None
        for i in range(nlp):
            if exists[i]:
                want = cand_lp(i)
                break
    if want is None:
        return verdict(raised)
    return verdict(not raised and got == [want])


OBLIGATIONS = [
    {"id": "C05.S4", "module": __name__, "func": "h_resolve",
     "what": "import resolution: ./ and ../ imports resolve against the importing file's directory, absolute imports as "
             "given, all others through the lookup paths in their given order (first existing candidate), missing files "
             "and non-relative imports containing . or .. are rejected with SsbCompilerError",
     "cases": list(range(len(KINDS))), "timeout": {"quick": 200, "thorough": 600},
     "bounds": "8 import spellings (case split) x 0-3 lookup paths (absolute and relative) x symbolic existence of every "
               "candidate",
     "encodes": ["explorerscript.ssb_converting.ssb_compiler.ExplorerScriptSsbCompiler._resolve_imported_file"],
     "stubs": ["os.path.exists / os.path.realpath answered from a symbolic table of existing paths (no symlinks: realpath "
               "= normpath); replayed on a real temporary directory by the enumerated part"]},
]
