"""C04 — every parameter value survives print -> parse; literal spellings parse to the specified value."""
from __future__ import annotations

from typing import Any

from explorerscript.ssb_converting.ssb_data_types import repr_string
from explorerscript.ssb_converting.compiler.utils import singleline_string_literal, multiline_string_literal
from findings.predicates import admit
from spec.tokens import is_string_literal, is_multiline_string_literal
from vlib.hx import verdict, tb, CASE

LAST_DETAIL: Any = None
NL = chr(10)
MAXS = tb(4, 5)


def read_literal(t: str) -> str:
    """what compiler.utils.string_literal does, on the token text (dispatch on the token class)"""
    if t[:3] == "'''" or t[:3] == '"""':
        if is_multiline_string_literal(t):
            return multiline_string_literal(t)
    return singleline_string_literal(t)


def _one_token(t: str) -> bool:
    if (t[:3] == "'''" or t[:3] == '"""') and len(t) >= 6:
        return is_multiline_string_literal(t)
    return is_string_literal(t)


def h_single(s: str, indent: int, pq: bool) -> bool:
    """
    pre: len(s) <= MAXS and NL not in s and 0 <= indent <= 3
    pre: admit("C04.S1", s, indent, pq)
    post: _
    """
    global LAST_DETAIL
    t = repr_string(s, indent, pq)
    LAST_DETAIL = {"printed": t}
    ok = _one_token(t)
    if ok:
        r = read_literal(t)
        LAST_DETAIL["read"] = r
        ok = s == r
    return verdict(ok)


_cc = CASE or 0
C_INDENT, C_PQ, C_LEN = _cc % 4, (_cc // 4) % 2 == 1, _cc // 8


def str_cases(maxlen: int, minlen: int = 0) -> list[int]:
    return [i + 4 * q + 8 * n for n in range(minlen, maxlen + 1) for q in (0, 1) for i in range(4)]


def h_multi(s: str, indent: int, pq: bool) -> bool:
    """
    pre: len(s) == C_LEN and NL in s and indent == C_INDENT and pq == C_PQ
    pre: admit("C04.S2", s, indent, pq)
    post: _
    """
    global LAST_DETAIL
    t = repr_string(s, indent, pq)
    LAST_DETAIL = {"printed": t}
    ok = _one_token(t)
    if ok:
        r = read_literal(t)
        LAST_DETAIL["read"] = r
        ok = s == r
    return verdict(ok)


OBLIGATIONS = [
    {"id": "C04.S1", "module": __name__, "func": "h_single",
     "what": "single-line strings: repr_string(s, indent, quote preference) is exactly one STRING_LITERAL token and "
             "string_literal() reads it back to s",
     "timeout": {"quick": 120, "thorough": 900},
     "bounds": {"quick": "|s|<=4, no newline, indent 0..3, both quote preferences",
                "thorough": "|s|<=5"},
     "encodes": ["explorerscript.ssb_converting.ssb_data_types.repr_string",
                 "explorerscript.ssb_converting.ssb_data_types.escape_quotes",
                 "explorerscript.ssb_converting.compiler.utils.singleline_string_literal"],
     "stubs": ["lexer represented by spec.tokens.is_string_literal (validated against the real lexer each run)"],
     "known": ["C04-single-backslash", "C04-single-cr-ff"]},
    {"id": "C04.S2", "module": __name__, "func": "h_multi",
     "what": "strings with newlines: printed literal is one (MULTILINE_)STRING_LITERAL token and reads back to s",
     "cases": {"quick": [c for c in str_cases(4, 1) if c not in (8, 12)],
               "thorough": [c for c in str_cases(5, 1) if c not in (8, 12)]},  # |s|=1 at indent 0 is all known-finding
     "timeout": {"quick": 200, "thorough": 1800},
     "bounds": {"quick": "|s|<=4, contains newline, indent 0..3, both quote preferences", "thorough": "|s|<=5"},
     "encodes": ["explorerscript.ssb_converting.ssb_data_types.repr_string",
                 "explorerscript.ssb_converting.ssb_data_types._repr_multiline_string",
                 "explorerscript.ssb_converting.compiler.utils.multiline_string_literal"],
     "stubs": ["lexer represented by spec.tokens.is_multiline_string_literal (validated against the real lexer)"],
     "known": ["C04-multi-all-lines-indented", "C04-multi-blank-last-line-indent0", "C04-multi-splitlines-seps"]},
]


# ---------------------------------------------------------------------------------------------------------
# S3: language strings (printing context: braces, one entry per language, literal printed at indent+1)
from explorerscript.ssb_converting.ssb_data_types import (SsbOpParamLanguageString, SsbOpParamConstString,
                                                         SsbOpParamFixedPoint, SsbOpParamPositionMarker,
                                                         NUMBER_OF_SPACES_PER_INDENT)


def _scan_literal(text: str, i: int) -> int:
    """index just after the string literal token starting at text[i] (lexer behaviour: longest of the two rules;
    a triple-quote opener starts a MULTILINE token ending at the first closing delimiter), -1 if none"""
    d = text[i:i + 3]
    if d == "'''" or d == '"""':
        j = text.find(d, i + 3)
        if j >= 0:
            return j + 3
    q = text[i:i + 1]
    if q != "'" and q != '"':
        return -1
    k = i + 1
    n = len(text)
    while k < n:
        c = text[k]
        if c == "\\":
            k += 2
            continue
        if c == q:
            return k + 1
        if c == "\r" or c == "\n" or c == "\f":
            return -1
        k += 1
    return -1


def _read_lang_string(text: str) -> dict[str, str] | None:
    """a reader for `{ lang=literal, ... }` following the grammar rule lang_string (blanks/newlines skipped)"""
    out: dict[str, str] = {}
    n = len(text)
    if not text.startswith("{"):
        return None
    i = 1
    while True:
        while i < n and (text[i] == " " or text[i] == "\n"):
            i += 1
        if i < n and text[i] == "}":
            return out if i == n - 1 else None
        j = text.find("=", i)
        if j < 0:
            return None
        lang = text[i:j]
        e = _scan_literal(text, j + 1)
        if e < 0:
            return None
        out[lang] = read_literal(text[j + 1:e])
        i = e
        if i < n and text[i] == ",":
            i += 1


def h_lang(s1: str, s2: str, two: bool, indent: int) -> bool:
    """
    pre: len(s1) == C_LEN and len(s2) <= (1 if two else 0) and indent == C_INDENT and two == C_PQ
    pre: not multi_or_single_known(s1, indent + 1) and not multi_or_single_known(s2, indent + 1)
    post: _
    """
    global LAST_DETAIL
    d = {"english": s1}
    if two:
        d["german"] = s2
    p = SsbOpParamLanguageString(dict(d))
    p.indent = indent
    t = str(p)
    LAST_DETAIL = {"printed": t}
    r = _read_lang_string(t)
    LAST_DETAIL["read"] = r
    return verdict(r is not None and list(r.keys()) == list(d.keys()) and all(d[k] == r[k] for k in d))


def multi_or_single_known(s: str, indent: int) -> bool:
    """the string-level findings of S1/S2 (language strings always use the default quote preference)"""
    from findings import predicates as P

    if NL in s:
        return (P.multi_all_lines_indented(s, indent, False) or P.multi_blank_last_line_indent0(s, indent, False)
                or P.multi_splitlines_seps(s, indent, False))
    return P.single_backslash_hazard(s, indent, False) or P.single_cr_ff(s, indent, False)


# S3b: the decompiler call sites that set .indent before printing a string parameter
class _StubDecompiler:
    def __init__(self, indent: int):
        self.indent = indent
        self.out: list[str] = []
        self.ops: list[int] = []

    def write_stmnt(self, s: str, line: bool = True) -> None:
        self.out.append(s)

    def source_map_add_opcode(self, off: int) -> None:
        self.ops.append(off)

    def source_map_add_position_mark(self, length: int, param: Any) -> None:
        pass


class _StubVertex:
    def __init__(self, op: Any):
        self._op = op

    def __getitem__(self, k: str) -> Any:
        assert k == "op"
        return self._op

    def out_edges(self) -> list[Any]:
        return []


def h_ctx_simple(s: str, indent: int, stale: int) -> bool:
    """
    pre: len(s) == C_LEN and indent == C_INDENT and 0 <= stale <= 3
    pre: not multi_or_single_known_sq(s, indent)
    post: _
    """
    global LAST_DETAIL
    from explorerscript.ssb_converting.decompiler.write_handlers.simple_ops.simple import SimpleSimpleOpWriteHandler
    from explorerscript.ssb_converting.ssb_data_types import SsbOperation, SsbOpCode

    p = SsbOpParamConstString(s)
    p.indent = stale  # left over from an earlier printing
    op = SsbOperation(7, SsbOpCode(-1, "foo"), [1, p])
    dec = _StubDecompiler(indent)
    SimpleSimpleOpWriteHandler(_StubVertex(op), dec, None).write_content()  # type: ignore
    text = dec.out[0]
    LAST_DETAIL = {"printed": text}
    ok = len(dec.out) == 1 and text.startswith("foo(1, ") and text.endswith(");")
    if ok:
        lit = text[7:len(text) - 2]
        ok = _one_token(lit) and s == read_literal(lit) and repr_string(s, indent, True) == lit
    return verdict(ok)


def multi_or_single_known_sq(s: str, indent: int) -> bool:
    from findings import predicates as P

    if NL in s:
        return (P.multi_all_lines_indented(s, indent, True) or P.multi_blank_last_line_indent0(s, indent, True)
                or P.multi_splitlines_seps(s, indent, True))
    return P.single_backslash_hazard(s, indent, True) or P.single_cr_ff(s, indent, True)


# ---------------------------------------------------------------------------------------------------------
# S4: spec direction — multiline_string_literal against an independent reading of the three dedent rules
def _lead(line: str) -> int:
    k = 0
    while k < len(line) and line[k] == " ":
        k += 1
    return k


def spec_multiline(body: str) -> str:
    lines = body.split("\n")
    first = lines[0]
    if len(lines) == 1:
        return first
    last = lines[-1]
    rest = lines[1:-1]
    if _lead(last) != len(last):  # last line has characters: treated like the others
        rest = rest + [last]
    m = 0
    if len(rest) > 0:
        m = min(_lead(x) for x in rest)
    rest = [x[m:] for x in rest]
    out = ([first] if first != "" else []) + rest
    return "\n".join(out)


ALPH = " a\n\\'"


def h_spec_multi(body: str, dq: bool) -> bool:
    """
    pre: len(body) == C_LEN
    pre: all(c in ALPH for c in body)
    pre: "'''" not in body
    pre: admit("C04.S4a", body, dq)
    post: _
    """
    global LAST_DETAIL
    b = body.replace("'", '"') if dq else body
    d = '"""' if dq else "'''"
    if d in b:
        return verdict(True)
    got = multiline_string_literal(d + b + d)
    want = spec_multiline(b)
    LAST_DETAIL = {"got": got, "want": want}
    return verdict(want == got)


def h_spec_single(body: str, dq: bool) -> bool:
    """
    pre: len(body) <= MAXS
    pre: is_string_literal(("'" + body + "'"))
    post: _
    """
    global LAST_DETAIL
    # documented: \\n inserts a newline; an escaped quote stands for the quote; quote styles are interchangeable
    q = '"' if dq else "'"
    b = body.replace("'", '"') if dq else body
    got = singleline_string_literal(q + b + q)
    want = b.replace("\\" + '"', '"').replace("\\" + "'", "'").replace("\\" + "n", "\n")
    LAST_DETAIL = {"got": got, "want": want}
    return verdict(want == got)


# ---------------------------------------------------------------------------------------------------------
# S5: numbers
def _digits(s: str) -> bool:
    for c in s:
        if not ("0" <= c <= "9"):
            return False
    return True


C_LW, C_LF, C_NEG = _cc % 4, (_cc // 4) % 4, (_cc // 16) % 2 == 1


def fixed_cases(maxw: int, maxf: int) -> list[int]:
    return [w + 4 * f + 16 * n for w in range(maxw + 1) for f in range(1, maxf + 1) for n in (0, 1)]


def h_fixed(w: str, f: str) -> bool:
    """
    pre: len(w) == C_LW and len(f) == C_LF
    pre: _digits(w) and _digits(f)
    post: _
    """
    global LAST_DETAIL
    t = ("-" if C_NEG else "") + w + "." + f
    p = SsbOpParamFixedPoint.from_str(t)
    v = p.value
    LAST_DETAIL = {"text": t, "value": v}
    # (i) print -> parse is the identity on parsed values
    ok = SsbOpParamFixedPoint.from_str(str(p)) == p
    # (ii) the value denotes the same number: sign, whole part, fraction digits (trailing zeros irrelevant)
    neg_v = v.startswith("-")
    body = v[1:] if neg_v else v
    k = body.find(".")
    ok = ok and k >= 1
    if ok:
        vw, vf = body[:k], body[k + 1:]
        whole = int(w) if w != "" else 0
        ok = _digits(vw) and _digits(vf) and int(vw) == whole and vf.rstrip("0") == f.rstrip("0")
        # no redundant leading zeros; sign kept (also for negative zero, as the spec asks)
        ok = ok and (vw == "0" or not vw.startswith("0")) and neg_v == C_NEG
    return verdict(ok)


def h_fixed_ctor(whole: int, negzero: bool, f: str) -> bool:
    """
    pre: -3 <= whole <= 11 and len(f) == 1 and _digits(f)
    post: _
    """
    # what a binary reader constructs: SsbOpParamFixedPoint(whole | NegativeZero, fraction digits)
    p = SsbOpParamFixedPoint(SsbOpParamFixedPoint.NegativeZero if negzero else whole, f)
    return verdict(SsbOpParamFixedPoint.from_str(str(p)) == p)


HEXD = "0123456789abcdef"
C_BASE = [10, 16, 8, 2][_cc % 4]
C_ND = (_cc // 4) % 4
C_INEG = (_cc // 16) % 2 == 1
C_UP = (_cc // 32) % 2 == 1


def int_cases(maxd: int) -> list[int]:
    """3-digit numerals only in base 2 (the values are enumerated by the solver: 8^3 / 16^3 numerals per slice is too many)"""
    return [b + 4 * n + 16 * s + 32 * u for b in range(4) for n in range(1, maxd + 1) for s in (0, 1) for u in (0, 1)
            if n <= 2 or b == 3]


def h_int(d0: int, d1: int, d2: int) -> bool:
    """
    pre: 0 <= d0 < C_BASE and 0 <= d1 < C_BASE and 0 <= d2 < C_BASE
    pre: C_BASE != 10 or C_ND == 1 or [d0, d1, d2][C_ND - 1] != 0
    post: _
    """
    from explorerscript.util import exps_int

    global LAST_DETAIL
    ds = [d0, d1, d2][:C_ND]  # least significant first
    prefix = {10: "", 16: "0x", 8: "0o", 2: "0b"}[C_BASE]
    if C_UP:
        prefix = prefix.upper()
    body = ""
    val = 0
    for d in reversed(ds):
        ch = HEXD[d]
        body += ch.upper() if C_UP else ch
        val = val * C_BASE + d
    t = ("-" if C_INEG else "") + prefix + body
    LAST_DETAIL = {"text": t}
    return verdict(is_integer_tok(t) and exps_int(t) == (-val if C_INEG else val))


def is_integer_tok(t: str) -> bool:
    from spec.tokens import is_integer

    return is_integer(t)


# ---------------------------------------------------------------------------------------------------------
# S6: position marks
class _Tok:
    def __init__(self, text: str):
        self.text = text

    def __str__(self) -> str:
        return self.text


class _ArgCtx:
    """stand-in for Position_marker_argContext: INTEGER()/DECIMAL() by the token class of the text"""

    def __init__(self, text: str):
        from spec.tokens import is_integer, is_decimal

        self._i = _Tok(text) if is_integer(text) else None
        self._d = _Tok(text) if (self._i is None and is_decimal(text)) else None

    def INTEGER(self) -> Any:
        return self._i

    def DECIMAL(self) -> Any:
        return self._d


C_XO, C_YO = [0, 2, 4][_cc % 3], [0, 2, 4][(_cc // 3) % 3]


C_NAMEFIX = (_cc // 9) % 2 == 1  # 1: name fixed, coordinates symbolic; 0: name symbolic, coordinates fixed


def posmark_cases(offs: list[int]) -> list[int]:
    return [a + 3 * b + 9 * f for a in offs for b in offs for f in (0, 1)]


def h_posmark(name: str, xr: int, yr: int, xo: int, yo: int) -> bool:
    """
    pre: len(name) <= 2 and -4 <= xr <= 4 and -4 <= yr <= 4 and xo == C_XO and yo == C_YO
    pre: (C_NAMEFIX and name == "m") or (not C_NAMEFIX and xr == -3 and yr == 4)
    pre: admit("C04.S6a", name, xr, yr, xo, yo)
    post: _
    """
    from explorerscript.common_syntax import parse_position_marker_arg

    global LAST_DETAIL
    m = SsbOpParamPositionMarker(name, xo, yo, xr, yr)
    t = str(m)
    LAST_DETAIL = {"printed": t}
    # grammar: POSITION '<' STRING_LITERAL ',' arg ',' arg '>'
    ok = t.startswith("Position<") and t.endswith(">")
    if not ok:
        return verdict(False)
    e = _scan_literal(t, 9)
    if e < 0:
        return verdict(False)
    lit = t[9:e]
    rest = t[e:-1]
    parts = rest.split(",")
    if len(parts) != 3 or parts[0] != "":
        return verdict(False)
    ax, ay = parts[1].strip(" "), parts[2].strip(" ")
    x = parse_position_marker_arg(_ArgCtx(ax))  # type: ignore
    y = parse_position_marker_arg(_ArgCtx(ay))  # type: ignore
    m2 = SsbOpParamPositionMarker(singleline_string_literal(lit), x[1], y[1], x[0], y[0])
    LAST_DETAIL["read"] = repr(m2)
    return verdict(m == m2 and name == m2.name)


C_PW, C_PF, C_PDOT, C_PNEG = _cc % 3, (_cc // 3) % 3, (_cc // 9) % 2 == 1, (_cc // 18) % 2 == 1


def posarg_cases() -> list[int]:
    out = []
    for w in range(3):
        for f in range(3):
            for d in (0, 1):
                for n in (0, 1):
                    if (d and f >= 1) or (not d and w >= 1 and f == 0):
                        out.append(w + 3 * f + 9 * d + 18 * n)
    return out


def h_posarg(neg: bool, w: str, f: str, has_dot: bool) -> bool:
    """
    pre: len(w) == C_PW and len(f) == C_PF and has_dot == C_PDOT and neg == C_PNEG and _digits(w) and _digits(f)
    pre: (has_dot and len(f) >= 1) or (not has_dot and len(w) >= 1 and len(f) == 0)
    pre: has_dot or w == "0" or not w.startswith("0")
    post: _
    """
    # literal spellings: integer; d.5 ; d.50 ; d.0 ; .5 ; anything else must be rejected
    from explorerscript.common_syntax import parse_position_marker_arg
    from explorerscript.error import SsbCompilerError

    global LAST_DETAIL
    t = ("-" if neg else "") + w + ("." + f if has_dot else "")
    LAST_DETAIL = {"text": t}
    want_pos = int(w) if w != "" else 0
    if neg:
        want_pos = -want_pos
    fz = f.rstrip("0")
    try:
        pos, off = parse_position_marker_arg(_ArgCtx(t))  # type: ignore
    except SsbCompilerError:
        return verdict(has_dot and fz != "" and fz != "5")
    LAST_DETAIL["got"] = [pos, off]
    if has_dot and fz != "" and fz != "5":
        return verdict(False)
    return verdict(pos == want_pos and off == (2 if fz == "5" else 0))


_ENC_STR = ["explorerscript.ssb_converting.ssb_data_types.repr_string",
            "explorerscript.ssb_converting.ssb_data_types._repr_multiline_string",
            "explorerscript.ssb_converting.ssb_data_types.escape_quotes",
            "explorerscript.ssb_converting.compiler.utils.singleline_string_literal",
            "explorerscript.ssb_converting.compiler.utils.multiline_string_literal"]

OBLIGATIONS += [
    {"id": "C04.S3", "module": __name__, "func": "h_lang",
     "what": "language strings: str(SsbOpParamLanguageString) at indent i, read by a grammar-following reader, gives "
             "the same {language: string} dict (1-2 languages)",
     "cases": {"quick": [c for c in str_cases(2, 0) if not ((c // 4) % 2 == 1 and c // 8 > 1)],
               "thorough": str_cases(3, 0)},
     "timeout": {"quick": 240, "thorough": 2400},
     "bounds": {"quick": "one language with |s|<=2, or two languages with |s1|<=1 and |s2|<=1, indent 0..3; strings in the S1/S2 known-finding classes excluded",
                "thorough": "first string |s|<=3"},
     "encodes": ["explorerscript.ssb_converting.ssb_data_types.SsbOpParamLanguageString.__str__"] + _ENC_STR},
    {"id": "C04.S3b", "module": __name__, "func": "h_ctx_simple",
     "what": "operation-argument context: SimpleSimpleOpWriteHandler prints a constant string at the decompiler's "
             "current indent whatever stale indent the parameter object carried, and the literal reads back",
     "cases": {"quick": [i + 8 * n for n in range(0, 4) for i in range(4)],
               "thorough": [i + 8 * n for n in range(0, 5) for i in range(4)]},
     "timeout": {"quick": 240, "thorough": 1200},
     "bounds": {"quick": "|s|<=3, indent 0..3, stale indent 0..3", "thorough": "|s|<=4"},
     "encodes": ["explorerscript.ssb_converting.decompiler.write_handlers.simple_ops.simple.SimpleSimpleOpWriteHandler.write_content",
                 "explorerscript.ssb_converting.ssb_data_types.SsbOpParamConstString.__str__"] + _ENC_STR,
     "stubs": ["decompiler and graph vertex replaced by recording stubs"]},
    {"id": "C04.S4a", "module": __name__, "func": "h_spec_multi",
     "what": "spec direction: multiline_string_literal == independent implementation of the three dedent rules of "
             "language_spec.rst, both quote styles",
     "cases": {"quick": [8 * n for n in range(0, 5)], "thorough": [8 * n for n in range(0, 6)]},
     "timeout": {"quick": 240, "thorough": 2400},
     "bounds": {"quick": "literal bodies of length <=4 over {space,a,LF,backslash,quote}", "thorough": "length <=5"},
     "encodes": ["explorerscript.ssb_converting.compiler.utils.multiline_string_literal"],
     "known": ["C04-reader-blank-line-before-closing-delimiter"]},
    {"id": "C04.S4b", "module": __name__, "func": "h_spec_single",
     "what": "spec direction: single-line literal bodies un-escape \\\\\" \\\\' \\\\n as documented; quote styles equal",
     "timeout": {"quick": 240, "thorough": 1200},
     "bounds": {"quick": "bodies |b|<=4 that form a STRING_LITERAL token", "thorough": "|b|<=5"},
     "encodes": ["explorerscript.ssb_converting.compiler.utils.singleline_string_literal"]},
    {"id": "C04.S5a", "module": __name__, "func": "h_fixed",
     "what": "decimal literal [-]W.F -> from_str: same sign (incl. negative zero), same whole part without redundant "
             "zeros, same fraction digits; from_str(str(p)) == p",
     "cases": {"quick": fixed_cases(1, 1) + [c for c in fixed_cases(0, 2) if c not in fixed_cases(1, 1)],
               "thorough": fixed_cases(2, 2)},
     "timeout": {"quick": 240, "thorough": 3000},
     "bounds": {"quick": "W 0-1 digits with F 1 digit, and W empty with F 2 digits (digit values are enumerated by the "
                         "solver: the constructor's set(fract_part) realises them)",
                "thorough": "W 0-2 digits, F 1-2 digits"},
     "encodes": ["explorerscript.ssb_converting.ssb_data_types.SsbOpParamFixedPoint.from_str",
                 "explorerscript.ssb_converting.ssb_data_types.SsbOpParamFixedPoint.__init__"]},
    {"id": "C04.S5b", "module": __name__, "func": "h_fixed_ctor",
     "what": "fixed-point value as a binary reader constructs it (whole int or NegativeZero, fraction digits): "
             "from_str(str(p)) == p",
     "timeout": {"quick": 240, "thorough": 1200},
     "bounds": "whole in [-3,11] or NegativeZero, 1 fraction digit",
     "encodes": ["explorerscript.ssb_converting.ssb_data_types.SsbOpParamFixedPoint.from_str",
                 "explorerscript.ssb_converting.ssb_data_types.SsbOpParamFixedPoint.__init__"]},
    {"id": "C04.S5c", "module": __name__, "func": "h_int",
     "what": "integer literals in base 10/16/8/2, lower and upper case prefix/digits, with and without '-': one "
             "INTEGER token and exps_int gives the positional value",
     "cases": {"quick": int_cases(2), "thorough": int_cases(3)},
     "timeout": {"quick": 240, "thorough": 1200},
     "bounds": {"quick": "1-2 digits per numeral (values enumerated by the solver: int(s, 0) is realised)",
                "thorough": "1-2 digits in every base, 3 digits in base 2"},
     "encodes": ["explorerscript.util.exps_int"]},
    {"id": "C04.S6a", "module": __name__, "func": "h_posmark",
     "what": "position mark printed by __str__ and read back through the grammar shape + the real "
             "parse_position_marker_arg gives an equal mark (fields and name)",
     "cases": posmark_cases([0, 1]),
     "timeout": {"quick": 240, "thorough": 1200},
     "bounds": "offsets in {0,2}^2 (case split; 4 is a known finding); either |name|<=2 symbolic with fixed tile "
               "coordinates, or name fixed with tile coordinates in [-4,4]^2",
     "encodes": ["explorerscript.ssb_converting.ssb_data_types.SsbOpParamPositionMarker.__str__",
                 "explorerscript.ssb_converting.ssb_data_types.SsbOpParamPositionMarker.x_final",
                 "explorerscript.common_syntax.parse_position_marker_arg"],
     "stubs": ["Position_marker_argContext replaced by a stand-in classifying the text with spec.tokens"],
     "known": ["C04-posmark-name-unescaped", "C04-posmark-offset-4"]},
    {"id": "C04.S6b", "module": __name__, "func": "h_posarg",
     "what": "position-mark argument spellings: integers, d.5, d.50, d.0, .5 give (tile, half offset); every other "
             "fraction is rejected with SsbCompilerError",
     "cases": {"quick": [c for c in posarg_cases() if not (c % 3 == 2 and (c // 3) % 3 == 2)], "thorough": posarg_cases()},
     "timeout": {"quick": 240, "thorough": 2400},
     "bounds": {"quick": "0-2 whole digits, 0-2 fraction digits (not 2+2), optional '-'",
                "thorough": "0-2 whole digits, 0-2 fraction digits, optional '-'"},
     "encodes": ["explorerscript.common_syntax.parse_position_marker_arg"]},
]
