"""C11 part E — concrete histories (model validation of the havoc lemmas): every input of the family is compiled and
decompiled (a) in a fresh object first, (b) again after everything else in a different order, in ONE process; results
must be identical. A difference is reported with the history that produced it."""
from __future__ import annotations

import copy
import random
import signal
from typing import Any

from spec import es_ast
from spec.families import programs
from vlib import trun


class _TO(BaseException):
    pass


def _alarm(s: int, f: Any) -> None:
    raise _TO()


def _history(name: str, seed_and_tier: Any) -> dict[str, Any]:
    from harness import pC01, pC02

    seed, tier, shard, nshards = seed_and_tier
    progs = [p for i, (_n, p) in enumerate(programs(tier, seed)) if i % nshards == shard]
    signal.signal(signal.SIGALRM, _alarm)

    def one(p: Any, reuse: Any = None) -> Any:
        text = es_ast.to_text(p)
        try:
            c = pC01.compile_text(text) if reuse is None else reuse.compile(text, "/dev/null")
        except Exception as e:  # noqa
            return ("rejected", type(e).__name__)
        from spec.ssb_machine import norm_param

        res: list[Any] = [[[(op.offset, op.op_code.name, [norm_param(q) for q in op.params]) for op in r] for r in c.routine_ops],
                          c.source_map.serialize()]
        x = (c.routine_infos, pC02.renumber(c.routine_ops), c.named_coroutines)
        signal.alarm(4)
        try:
            t, sm = pC02.decompile(copy.deepcopy(x[0]), copy.deepcopy(x[1]), x[2])
            res += [t, sm.serialize()]
        except _TO:
            res += ["TIMEOUT"]
        except Exception as e:  # noqa
            res += ["raised " + type(e).__name__]
        finally:
            signal.alarm(0)
        return res

    first = [one(p) for p in progs]
    order = list(range(len(progs)))
    random.Random(seed + 1).shuffle(order)
    from explorerscript.ssb_converting.ssb_compiler import ExplorerScriptSsbCompiler

    shared = ExplorerScriptSsbCompiler("$PERFORMANCE_PROGRESS_LIST", [])
    second = {}
    for i in order:
        second[i] = one(progs[i], reuse=shared)
    diffs = [i for i in range(len(progs)) if first[i] != second[i] and "TIMEOUT" not in first[i] and "TIMEOUT" not in second[i]]
    if diffs:
        i = diffs[0]
        return {"status": "harness_error",
                "what": f"result depends on the history: input {i} of shard {shard} differs between a fresh call and a call "
                        f"after {order.index(i)} other inputs on a reused compiler:\n{es_ast.to_text(progs[i])[:500]}"}
    return {"status": "ok", "routines": 0, "equal": 0, "sample": {"inputs": len(progs), "orders": 2, "differences": 0}}


def run(tier: str, seed: int, known: list[dict[str, Any]]) -> dict[str, Any]:
    import vlib.trun as T

    old = T.TASK_TIMEOUT
    T.TASK_TIMEOUT = 1800
    try:
        n = 16
        items = [(f"history.{k}", (seed, tier, k, n)) for k in range(n)]
        r = trun.run_family("C11", "C11.E", _history, items, known, None, bounds="two call orders per shard in one process")
    finally:
        T.TASK_TIMEOUT = old
    r["engine"] = "V"
    tot = sum(s.get("inputs", 0) for s in r["samples"])
    r["headline"] = (f"16 processes x 2 call orders over the F1-F4 programs (compile on a reused compiler + decompile): "
                     f"{len(r['harness_errors'])} history-dependent results (model validation)")
    r["obligations"] = r["discharged"] = r["distinct_nontrivial"] = 0
    return r


# ---- fresh processes: same inputs in separate interpreters with different hash seeds ------------------------------
_CHILD = r'''
import sys, json, copy, hashlib, signal
sys.path.insert(0, %r)
from spec import es_ast
from spec.families import programs
from harness import pC01, pC02
class TO(BaseException): pass
def _a(s, f): raise TO()
signal.signal(signal.SIGALRM, _a)
out = {}
for i, (n, p) in enumerate(programs("quick", %d)):
    if i %% %d != 0:
        continue
    try:
        c = pC01.compile_text(es_ast.to_text(p))
    except Exception as e:
        out[n] = "rejected " + type(e).__name__
        continue
    from spec.ssb_machine import norm_param
    res = [repr([[(op.offset, op.op_code.name, [norm_param(q) for q in op.params]) for op in r] for r in c.routine_ops]),
           c.source_map.serialize()]
    x = (c.routine_infos, pC02.renumber(c.routine_ops), c.named_coroutines)
    signal.alarm(6)
    try:
        t, sm = pC02.decompile(copy.deepcopy(x[0]), copy.deepcopy(x[1]), x[2])
        res += [t, sm.serialize()]
    except TO:
        res += ["TIMEOUT"]
    except BaseException as e:
        res += ["raised " + type(e).__name__]
    finally:
        signal.alarm(0)
    out[n] = hashlib.sha256(repr(res).encode()).hexdigest() if "TIMEOUT" not in res else "TIMEOUT"
print("@@" + json.dumps(out))
'''


def fresh_processes(tier: str, seed: int, known: list[dict[str, Any]]) -> dict[str, Any]:
    import json
    import os
    import subprocess
    import sys
    import time

    root = os.path.dirname(os.path.dirname(os.path.abspath(__file__)))
    step = 12 if tier == "quick" else 3
    t0 = time.time()
    procs = []
    for hs in ("0", "1", "4242", "random"):
        env = dict(os.environ, PYTHONHASHSEED=hs, PYTHONWARNINGS="ignore")
        procs.append(subprocess.Popen([sys.executable, "-c", _CHILD % (root, seed, step)], env=env, stdout=subprocess.PIPE,
                                      stderr=subprocess.DEVNULL, text=True))
    outs = []
    for p in procs:
        o, _ = p.communicate(timeout=3600)
        line = [x for x in o.splitlines() if x.startswith("@@")]
        outs.append(json.loads(line[0][2:]) if line else None)
    res: dict[str, Any] = {"engine": "E", "id": "C11.F", "violations": [], "harness_errors": [], "inconclusive": [],
                           "known_hits": [], "samples": [], "obligations": 0, "discharged": 0, "distinct_nontrivial": 0}
    if any(o is None for o in outs):
        res["harness_errors"].append({"ob": "C11.F", "what": "a child interpreter produced no result"})
        return res
    names = list(outs[0].keys())
    diffs = [n for n in names if len({o.get(n) for o in outs if o.get(n) != "TIMEOUT"}) > 1]
    for n in diffs[:3]:
        import hashlib

        rec = {"property": "C11", "obligation": "C11.F", "module": "harness.pC11", "func": "replay_fresh", "args": [n, seed, step],
               "kwargs": {}, "what": "result differs between fresh interpreters with different hash seeds"}
        d = os.path.join(root, "replays", "C11")
        os.makedirs(d, exist_ok=True)
        path = os.path.join(d, "C11.F-" + hashlib.sha256(n.encode()).hexdigest()[:12] + ".json")
        json.dump(rec, open(path, "w"), indent=1)
        res["violations"].append({"ob": "C11.F", "replay": path,
                                  "message": f"{n}: compile/decompile result differs between fresh processes (PYTHONHASHSEED 0/1/4242/random)"})
    res["samples"].append({"fresh_processes": 4, "inputs": len(names), "differences": len(diffs)})
    res["headline"] = (f"{len(names)} inputs compiled and decompiled in 4 fresh interpreters with different hash seeds: "
                       f"{len(diffs)} differing results, {round(time.time() - t0)} s")
    return res


def replay_fresh(name: str, seed: int, step: int) -> bool:
    import json
    import os
    import subprocess
    import sys

    root = os.path.dirname(os.path.dirname(os.path.abspath(__file__)))
    vals = set()
    for hs in ("0", "1", "4242", "random"):
        env = dict(os.environ, PYTHONHASHSEED=hs, PYTHONWARNINGS="ignore")
        o = subprocess.run([sys.executable, "-c", _CHILD % (root, seed, step)], env=env, capture_output=True, text=True).stdout
        line = [x for x in o.splitlines() if x.startswith("@@")]
        vals.add(json.loads(line[0][2:]).get(name))
    vals.discard("TIMEOUT")
    return len(vals) <= 1
