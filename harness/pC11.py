"""C11 part E — concrete histories (model validation of the havoc lemmas): every input of the family is compiled and
decompiled (a) in a fresh object first, (b) again after everything else in a different order, in ONE process; results
must be identical. A difference is reported with the history that produced it."""
from __future__ import annotations

import copy
import random
import signal
from typing import Any

from spec import es_ast
from spec.families import programs
from vlib import trun


class _TO(BaseException):
    pass


def _alarm(s: int, f: Any) -> None:
    raise _TO()


_SKIP_MODULES = ("explorerscript.antlr",)


def _containers() -> list[tuple[Any, str, Any]]:
    """every module-level and class-level mutable container (and lru_cache) of the explorerscript package: the places
    where state can survive a call without being reachable from the objects the caller holds"""
    import sys

    out = []
    for mname, mod in list(sys.modules.items()):
        if not mname.startswith("explorerscript") or mod is None or mname.startswith(_SKIP_MODULES):
            continue
        for k, v in list(vars(mod).items()):
            if k.startswith("__"):
                continue
            if isinstance(v, (dict, list, set)) or hasattr(v, "cache_clear"):
                out.append((mod, k, v))
            if isinstance(v, type) and getattr(v, "__module__", None) == mname:
                for ak, av in list(vars(v).items()):
                    if ak.startswith("_") and ak.endswith("_"):
                        continue  # dunder and Enum tables
                    if isinstance(av, (dict, list, set)) or hasattr(av, "cache_clear"):
                        out.append((v, ak, av))
    return out


def _snapshot() -> list[tuple[Any, Any]]:
    return [(v, copy.copy(v) if isinstance(v, (dict, list, set)) else None) for _o, _k, v in _containers()]


def _restore(snap: list[tuple[Any, Any]]) -> None:
    for v, saved in snap:
        if saved is None:
            v.cache_clear()
        elif isinstance(v, dict):
            v.clear()
            v.update(saved)
        elif isinstance(v, list):
            v[:] = saved
        else:
            v.clear()
            v |= saved
    # containers that did not exist at snapshot time (created lazily) are emptied
    known = {id(v) for v, _s in snap}
    for _o, _k, v in _containers():
        if id(v) not in known:
            if hasattr(v, "cache_clear"):
                v.cache_clear()
            else:
                v.clear()


def collision_programs() -> list[tuple[str, Any]]:
    """inputs that share texts between different roles and nesting depths (keys a careless memo would confuse)"""
    from spec.families import op, C

    out = []
    cond = ("c_neg", False, "debug")
    for ti, text in enumerate(("Hello there", "It's", "x")):
        for depth in range(3):
            for role in ("const", "lang", "both", "swapped"):
                if role == "const":
                    stmts = [op("debug_Print", ("str", text))]
                elif role == "lang":
                    stmts = [op("message_Talk", ("lstr", {"english": text}))]
                elif role == "both":
                    stmts = [op("debug_Print", ("str", text)), op("message_Talk", ("lstr", {"english": text}))]
                else:
                    stmts = [op("message_Talk", ("lstr", {"english": text, "german": text})), op("debug_Print", ("str", text), ("str", text))]
                body = stmts
                for d in range(depth):
                    body = [("if", d % 2 == 1, [cond], body, [], None)]
                out.append((f"collide.{ti}.{depth}.{role}", {"routines": [("def", 0, body + [("ctrl", "end")])]}))
    return out


def _import_histories() -> str | None:
    """one compiler object reused for files in different directories that spell their import the same way"""
    import os
    import shutil
    import tempfile
    from explorerscript.ssb_converting.ssb_compiler import ExplorerScriptSsbCompiler
    from spec.ssb_machine import norm_param

    d = tempfile.mkdtemp(prefix="verif_c11_")
    try:
        mains = []
        for sub, tag in (("dir_a", "a"), ("dir_b", "b"), ("dir_b/deeper", "c")):
            os.makedirs(os.path.join(d, sub, "inc"), exist_ok=True)
            with open(os.path.join(d, sub, "lib.exps"), "w") as fh:
                fh.write(f"macro greet($x) {{ from_{tag}($x); }}")
            with open(os.path.join(d, sub, "inc", "more.exps"), "w") as fh:
                fh.write(f"macro more() {{ more_{tag}(); }}")
            main = os.path.join(d, sub, "main.exps")
            with open(main, "w") as fh:
                fh.write('import "./lib.exps"; import "./inc/more.exps"; def 0 { ~greet(1); ~more(); end; }')
            mains.append(main)

        def res(c: Any) -> Any:
            return ([[(o.offset, o.op_code.name, [norm_param(q) for q in o.params]) for o in r] for r in c.routine_ops],
                    c.source_map.serialize(), sorted(c.imports))

        def comp(c: Any, path: str) -> Any:
            c.compile(open(path).read(), path)
            return res(c)

        fresh = [comp(ExplorerScriptSsbCompiler("$PERFORMANCE_PROGRESS_LIST", []), m) for m in mains]
        for order in ([0, 1, 2], [2, 1, 0], [1, 0, 2, 0]):
            shared = ExplorerScriptSsbCompiler("$PERFORMANCE_PROGRESS_LIST", [])
            done = []
            for i in order:
                # lookup paths are constructor arguments; reuse with the same (empty) list and relative imports only
                try:
                    got = comp(shared, mains[i])
                except Exception as e:  # noqa
                    got = ("raised", type(e).__name__)
                want = fresh[i] if got[0] != "raised" else None
                if got[0] == "raised":
                    # "inc/more.exps" needs a lookup path: expected to be rejected identically by a fresh compiler
                    try:
                        comp(ExplorerScriptSsbCompiler("$PERFORMANCE_PROGRESS_LIST", []), mains[i])
                        return f"reused compiler rejects {mains[i][len(d):]} after {done} but a fresh one accepts it"
                    except Exception as e2:  # noqa
                        if type(e2).__name__ != got[1]:
                            return f"reused compiler raises {got[1]}, fresh one {type(e2).__name__}"
                elif got != want:
                    return (f"compiling {mains[i][len(d):]} on a compiler that compiled {done} before gives ops "
                            f"{got[0]} / imports {got[2]}; a fresh compiler gives {want[0]} / {want[2]}")
                done.append(mains[i][len(d):])
        return None
    finally:
        shutil.rmtree(d, ignore_errors=True)


def _history(name: str, seed_and_tier: Any) -> dict[str, Any]:
    from harness import pC01, pC02

    seed, tier, shard, nshards = seed_and_tier
    progs = [p for i, (_n, p) in enumerate(programs(tier, seed)) if i % nshards == shard]
    progs += [p for i, (_n, p) in enumerate(collision_programs()) if i % nshards in (shard, (shard + 5) % nshards)]
    signal.signal(signal.SIGALRM, _alarm)

    def one(p: Any, reuse: Any = None) -> Any:
        text = es_ast.to_text(p)
        try:
            c = pC01.compile_text(text) if reuse is None else reuse.compile(text, "/dev/null")
        except Exception as e:  # noqa
            return ("rejected", type(e).__name__)
        from spec.ssb_machine import norm_param

        res: list[Any] = [[[(op.offset, op.op_code.name, [norm_param(q) for q in op.params]) for op in r] for r in c.routine_ops],
                          c.source_map.serialize()]
        x = (c.routine_infos, pC02.renumber(c.routine_ops), c.named_coroutines)
        signal.alarm(4)
        try:
            t, sm = pC02.decompile(copy.deepcopy(x[0]), copy.deepcopy(x[1]), x[2])
            res += [t, sm.serialize()]
        except _TO:
            res += ["TIMEOUT"]
        except Exception as e:  # noqa
            res += ["raised " + type(e).__name__]
        finally:
            signal.alarm(0)
        return res

    one(progs[0])  # import everything before the snapshot
    snap = _snapshot()
    # pass 1: every input on fresh objects with all package-level containers restored to their import-time content
    first = []
    for p in progs:
        _restore(snap)
        first.append(one(p))
    _restore(snap)
    from explorerscript.ssb_converting.ssb_compiler import ExplorerScriptSsbCompiler

    def differ(i: int, r: Any) -> bool:
        return first[i] != r and "TIMEOUT" not in first[i] and "TIMEOUT" not in r

    # passes 2-4: state carried over, three different orders, one reused compiler per pass
    orders = [list(range(len(progs))), list(reversed(range(len(progs)))), list(range(len(progs)))]
    random.Random(seed + 1).shuffle(orders[2])
    for oi, order in enumerate(orders):
        shared = ExplorerScriptSsbCompiler("$PERFORMANCE_PROGRESS_LIST", [])
        for n_before, i in enumerate(order):
            r = one(progs[i], reuse=shared)
            if differ(i, r):
                which = [k for k in range(len(first[i])) if k >= len(r) or first[i][k] != r[k]]
                part = ["compiled ops", "compile-time source map", "decompiled text", "decompile-time source map"]
                return {"status": "violation", "kind": "history", "program": list(seed_and_tier),
                        "what": f"result depends on the history: {', '.join(part[k] for k in which if k < 4)} of an input differ "
                                f"between a call in a pristine package state and the same call after {n_before} other inputs "
                                f"(order {oi}, shard {shard}, reused compiler):\n{es_ast.to_text(progs[i])[:400]}",
                        "witness": {"shard": shard, "order": oi, "position": n_before,
                                    "pristine": repr(first[i][2] if len(first[i]) > 2 else first[i])[:400],
                                    "after_history": repr(r[2] if len(r) > 2 else r)[:400]}}
    if shard == 0:
        err = _import_histories()
        if err:
            return {"status": "violation", "kind": "history-imports", "program": list(seed_and_tier), "what": err,
                    "witness": {"what": err[:600]}}
    return {"status": "ok", "routines": 0, "equal": 0, "sample": {"inputs": len(progs), "orders": 4, "differences": 0}}


def replay(name: str, prog_repr: str, witness: Any) -> bool:
    return _history(name, tuple(trun.parse_prog(prog_repr)))["status"] != "violation"


def run(tier: str, seed: int, known: list[dict[str, Any]]) -> dict[str, Any]:
    import vlib.trun as T

    old = T.TASK_TIMEOUT
    T.TASK_TIMEOUT = 1800
    try:
        n = 16
        items = [(f"history.{k}", (seed, tier, k, n)) for k in range(n)]
        r = trun.run_family("C11", "C11.E", _history, items, known, None,
                            bounds="per shard: one pristine pass (package-level containers restored before every call) and "
                                   "three carried passes (given / reversed / shuffled order) on reused compilers, in one process",
                            chunksize=1)
    finally:
        T.TASK_TIMEOUT = old
    r["engine"] = "E"
    r["headline"] = (f"16 processes x (1 pristine + 3 carried call orders) over the F1-F4 programs + {len(collision_programs())} "
                     f"shared-text programs + import histories across directories: {len(r['violations'])} history-dependent "
                     f"results, {len(r['harness_errors'])} harness errors")
    r["obligations"] = r["discharged"] = r["distinct_nontrivial"] = 0
    return r


# ---- fresh processes: same inputs in separate interpreters with different hash seeds ------------------------------
_CHILD = r'''
import sys, json, copy, hashlib, signal
sys.path.insert(0, %r)
from spec import es_ast
from spec.families import programs
from harness import pC01, pC02
class TO(BaseException): pass
def _a(s, f): raise TO()
signal.signal(signal.SIGALRM, _a)
out = {}
for i, (n, p) in enumerate(programs("quick", %d)):
    if i %% %d != 0:
        continue
    try:
        c = pC01.compile_text(es_ast.to_text(p))
    except Exception as e:
        out[n] = "rejected " + type(e).__name__
        continue
    from spec.ssb_machine import norm_param
    res = [repr([[(op.offset, op.op_code.name, [norm_param(q) for q in op.params]) for op in r] for r in c.routine_ops]),
           c.source_map.serialize()]
    x = (c.routine_infos, pC02.renumber(c.routine_ops), c.named_coroutines)
    signal.alarm(6)
    try:
        t, sm = pC02.decompile(copy.deepcopy(x[0]), copy.deepcopy(x[1]), x[2])
        res += [t, sm.serialize()]
    except TO:
        res += ["TIMEOUT"]
    except BaseException as e:
        res += ["raised " + type(e).__name__]
    finally:
        signal.alarm(0)
    out[n] = hashlib.sha256(repr(res).encode()).hexdigest() if "TIMEOUT" not in res else "TIMEOUT"
print("@@" + json.dumps(out))
'''


def fresh_processes(tier: str, seed: int, known: list[dict[str, Any]]) -> dict[str, Any]:
    import json
    import os
    import subprocess
    import sys
    import time

    root = os.path.dirname(os.path.dirname(os.path.abspath(__file__)))
    step = 12 if tier == "quick" else 3
    t0 = time.time()
    procs = []
    for hs in ("0", "1", "4242", "random"):
        env = dict(os.environ, PYTHONHASHSEED=hs, PYTHONWARNINGS="ignore")
        procs.append(subprocess.Popen([sys.executable, "-c", _CHILD % (root, seed, step)], env=env, stdout=subprocess.PIPE,
                                      stderr=subprocess.DEVNULL, text=True))
    outs = []
    for p in procs:
        o, _ = p.communicate(timeout=3600)
        line = [x for x in o.splitlines() if x.startswith("@@")]
        outs.append(json.loads(line[0][2:]) if line else None)
    res: dict[str, Any] = {"engine": "E", "id": "C11.F", "violations": [], "harness_errors": [], "inconclusive": [],
                           "known_hits": [], "samples": [], "obligations": 0, "discharged": 0, "distinct_nontrivial": 0}
    if any(o is None for o in outs):
        res["harness_errors"].append({"ob": "C11.F", "what": "a child interpreter produced no result"})
        return res
    names = list(outs[0].keys())
    diffs = [n for n in names if len({o.get(n) for o in outs if o.get(n) != "TIMEOUT"}) > 1]
    for n in diffs[:3]:
        import hashlib

        rec = {"property": "C11", "obligation": "C11.F", "module": "harness.pC11", "func": "replay_fresh", "args": [n, seed, step],
               "kwargs": {}, "what": "result differs between fresh interpreters with different hash seeds"}
        d = os.path.join(root, "replays", "C11")
        os.makedirs(d, exist_ok=True)
        path = os.path.join(d, "C11.F-" + hashlib.sha256(n.encode()).hexdigest()[:12] + ".json")
        json.dump(rec, open(path, "w"), indent=1)
        res["violations"].append({"ob": "C11.F", "replay": path,
                                  "message": f"{n}: compile/decompile result differs between fresh processes (PYTHONHASHSEED 0/1/4242/random)"})
    res["samples"].append({"fresh_processes": 4, "inputs": len(names), "differences": len(diffs)})
    res["headline"] = (f"{len(names)} inputs compiled and decompiled in 4 fresh interpreters with different hash seeds: "
                       f"{len(diffs)} differing results, {round(time.time() - t0)} s")
    return res


def replay_fresh(name: str, seed: int, step: int) -> bool:
    import json
    import os
    import subprocess
    import sys

    root = os.path.dirname(os.path.dirname(os.path.abspath(__file__)))
    vals = set()
    for hs in ("0", "1", "4242", "random"):
        env = dict(os.environ, PYTHONHASHSEED=hs, PYTHONWARNINGS="ignore")
        o = subprocess.run([sys.executable, "-c", _CHILD % (root, seed, step)], env=env, capture_output=True, text=True).stdout
        line = [x for x in o.splitlines() if x.startswith("@@")]
        vals.add(json.loads(line[0][2:]).get(name))
    vals.discard("TIMEOUT")
    return len(vals) <= 1
