"""C16 part E6 — re-spelled sources compile to identical ops, tables and position marks (enumerated, real lexer/parser)."""
from __future__ import annotations

from typing import Any

from spec import es_ast
from spec.families import programs
from vlib import trun

LAYOUTS: list[dict[str, Any]] = [
    {"one_line": True},
    {"comments": True, "blank_lines": 1, "indent": 2},
    {"label_sigil": "§", "quote": "'", "trailing_comma": True},
    {"int_base": 16, "legacy_for": True, "indent": 7},
    {"int_base": 2, "for_parens": True, "comments": True, "one_line": True},
    {"int_base": 8, "indent": 0},
]


def result(c: Any) -> Any:
    from spec.ssb_machine import norm_param, infos

    ops = [[(op.offset, op.op_code.name, [norm_param(p) for p in op.params]) for op in r] for r in c.routine_ops]
    marks = [(m.name, m.x_offset, m.y_offset, m.x_relative, m.y_relative) for m in c.source_map.get_position_marks__direct()]
    return ops, infos(c.routine_infos, c.named_coroutines), marks


def task(name: str, prog: dict[str, Any]) -> dict[str, Any]:
    from harness.pC01 import compile_text

    base_text = es_ast.to_text(prog)
    try:
        base = result(compile_text(base_text))
    except Exception as e:  # noqa
        return {"status": "rejected", "what": type(e).__name__}
    n = 0
    for lay in LAYOUTS:
        text = es_ast.to_text(prog, **lay)
        try:
            got = result(compile_text(text))
        except Exception as e:  # noqa
            return {"status": "violation", "kind": "respelling-rejected", "program": prog,
                    "what": f"re-spelled source (layout {lay}) rejected: {type(e).__name__}: {str(e)[:120]}",
                    "witness": {"layout": lay, "text": text[:800], "base": base_text[:800]}}
        if got != base:
            return {"status": "violation", "kind": "respelling-differs", "program": prog,
                    "what": f"re-spelled source (layout {lay}) compiles to different ops/tables/position marks",
                    "witness": {"layout": lay, "text": text[:800], "base": base_text[:800]}}
        n += 1
    return {"status": "ok", "routines": n, "equal": n, "sample": {"source": base_text[:120], "layouts": n}}


def replay(name: str, prog_repr: str, witness: Any) -> bool:
    return task(name, trun.parse_prog(prog_repr))["status"] != "violation"


def run(tier: str, seed: int, known: list[dict[str, Any]]) -> dict[str, Any]:
    items = [p for i, p in enumerate(programs(tier, seed)) if tier != "quick" or i % 4 == 0 or p[0].startswith(("F4", "F1.simple"))]
    r = trun.run_family("C16", "C16.E6", task, items, known, None,
                        bounds="F1-F4 programs x 6 layouts (one line; comments+blank lines; § labels, single quotes, "
                               "trailing commas; hex/binary/octal integers; deprecated and parenthesised for-targets)")
    r["headline"] = (f"{r['programs']} programs x {len(LAYOUTS)} re-spellings compiled through the real lexer/parser: "
                     f"{r['discharged']} identical results, {r['disagreements_checked']} violations")
    return r
