"""C17 — the Pygments lexer is total and loses no text: regular-language obligations over the LIVE token table."""
from __future__ import annotations

import glob
import os
import re
import time
from typing import Any

import z3

from vlib import engine_r as R


def _table() -> tuple[Any, dict[str, list[Any]]]:
    from explorerscript.pygments.expslexer import ExplorerScriptLexer

    lx = ExplorerScriptLexer()
    return lx, lx._tokens


def _reachable(tokens: dict[str, list[Any]]) -> tuple[list[str], list[str]]:
    seen = ["root"]
    problems: list[str] = []
    todo = ["root"]
    while todo:
        st = todo.pop()
        for (_m, _a, new) in tokens[st]:
            if new is None:
                continue
            if isinstance(new, int):
                continue  # pop n
            if isinstance(new, tuple):
                for s in new:
                    if s == "#push" or s == "#pop":
                        continue
                    if s not in tokens:
                        problems.append(f"state {st}: transition to unknown state {s!r}")
                    elif s not in seen:
                        seen.append(s)
                        todo.append(s)
            else:
                problems.append(f"state {st}: unsupported transition {new!r}")
    return seen, problems


def _samples() -> list[str]:
    out = ["", "a", "\n", "'", '"', "'''", '"""', "/*", "//", "/* x */", "// x\n", ".5", "0x1F", "0b01", "017", "12",
           "$v", "@l", "§l", "if", "ifx", "menu2", "x5", "é", " ", "\t", "\\", "'a'b", '"a"b', "\r", "5.5"]
    for f in sorted(glob.glob("/repo/example/*.exps") + glob.glob("/repo/tests/**/*.exps", recursive=True))[:20]:
        try:
            t = open(f, encoding="utf-8").read()
        except Exception:
            continue
        for i in range(0, min(len(t), 1200), 37):
            out.append(t[i:i + 9])
    return out


def run(tier: str, seed: int, known: list[dict[str, Any]]) -> dict[str, Any]:
    t0 = time.time()
    res: dict[str, Any] = {"engine": "R", "id": "C17.R", "violations": [], "harness_errors": [], "inconclusive": [],
                           "known_hits": [], "samples": []}
    lx, tokens = _table()
    states, problems = _reachable(tokens)
    from pygments.token import _TokenType

    queries = 0
    discharged = 0
    nontrivial = 0
    obligations = 0
    solver_s = 0.0

    def check(s: z3.Solver) -> str:
        nonlocal queries, solver_s
        queries += 1
        a = time.time()
        s.set("timeout", 60000)
        r = str(s.check())
        solver_s += time.time() - a
        return r

    def violation(what: str, detail: Any) -> None:
        import hashlib
        import json

        rec = {"property": "C17", "obligation": "C17.R", "what": what, "detail": detail,
               "module": "harness.pC17", "func": "replay", "args": [what, detail], "kwargs": {}}
        h = hashlib.sha256(json.dumps(rec, sort_keys=True, default=str).encode()).hexdigest()[:12]
        d = os.path.join(os.path.dirname(os.path.dirname(os.path.abspath(__file__))), "replays", "C17")
        os.makedirs(d, exist_ok=True)
        path = os.path.join(d, f"C17.R-{h}.json")
        json.dump(rec, open(path, "w"), indent=1, default=str)
        res["violations"].append({"ob": "C17.R", "replay": path, "message": f"{what}: {detail}"})

    # ---- R3 structural side conditions ------------------------------------------------------------------
    obligations += 1
    struct_ok = not problems
    for st in states:
        for (m, action, new) in tokens[st]:
            if not isinstance(action, _TokenType):
                struct_ok = False
                problems.append(f"state {st}: rule {m.__self__.pattern!r} has a callback action (text could be dropped)")
    if struct_ok:
        discharged += 1
    else:
        # replayable: run the real lexer on a text and compare concatenation
        bad = _find_loss(lx)
        if bad is not None:
            violation("token texts do not concatenate to the input", bad)
        else:
            res["inconclusive"].append({"ob": "C17.R3", "state": "unknown", "message": "; ".join(problems)})

    # ---- translate ------------------------------------------------------------------------------------------
    trans: dict[str, list[tuple[Any, Any]]] = {}
    for st in states:
        trans[st] = []
        for (m, action, new) in tokens[st]:
            pat = m.__self__
            try:
                trans[st].append((pat, R.translate(pat.pattern, pat.flags)))
            except R.Unsupported as e:
                trans[st].append((pat, None))
                res["inconclusive"].append({"ob": "C17.R", "state": "unknown",
                                            "message": f"untranslatable rule {pat.pattern!r}: {e}"})

    # ---- translator validation (Serval style): real `re` vs encoding on sample strings ----------------------------
    validated = 0
    x = z3.String("x")
    for st in states:
        for pat, tr in trans[st]:
            if tr is None:
                continue
            for s_ in _samples():
                m = pat.match(s_)
                if m is not None:
                    g = m.group()
                    sol = z3.Solver()
                    sol.add(z3.InRe(z3.StringVal(g), tr.rx))
                    if check(sol) != "sat":
                        res["harness_errors"].append({"ob": "C17.R", "what": "translator disagrees with re (match not in L)",
                                                      "pattern": pat.pattern, "text": g})
                    validated += 1
                elif not tr.has_assertion and len(s_) <= 9:
                    # no prefix of s_ matches for real -> no prefix may be in L
                    sol = z3.Solver()
                    sol.add(z3.InRe(z3.StringVal(s_), z3.Concat(tr.rx, R.sigma_star())))
                    if check(sol) != "unsat":
                        if all(ord(c) < 128 for c in s_):
                            res["harness_errors"].append({"ob": "C17.R", "what": "translator disagrees with re (L has a prefix re rejects)",
                                                          "pattern": pat.pattern, "text": s_})
                    validated += 1

    # ---- R1 progress: no rule of a reachable state matches the empty string -------------------------------------
    for st in states:
        for (pat, tr), (m, action, new) in zip(trans[st], tokens[st]):
            if tr is None:
                continue
            obligations += 1
            sol = z3.Solver()
            sol.add(z3.InRe(x, tr.rx), z3.Length(x) == 0)
            r = check(sol)
            if r == "unsat":
                discharged += 1
                # twin: the rule matches something (query not vacuous)
                s2 = z3.Solver()
                s2.add(z3.InRe(x, tr.rx), z3.Length(x) >= 1)
                if check(s2) == "sat":
                    nontrivial += 1
            elif r == "sat":
                # A rule that matches the empty word is tried at end of text, where no (non-empty) earlier rule can
                # match: Pygments' loop then never advances. Replay: a text that ends inside this state.
                if _real_hangs_or_loses(st, ""):
                    violation("rule matches the empty string: the lexer does not terminate at the end of a text that "
                              "ends in this state", {"state": st, "pattern": pat.pattern,
                                                     "hang_text": _ENTER.get(st, "")})
                else:
                    res["inconclusive"].append({"ob": "C17.R1", "state": "unknown",
                                                "message": f"empty match of {pat.pattern!r} in {st} not reproduced "
                                                           f"(over-approximated assertion?)"})
            else:
                res["inconclusive"].append({"ob": "C17.R1", "state": r, "message": pat.pattern})

    # ---- R2 coverage: in every reachable state, every non-empty text has a matching rule at position 0 -----------
    for st in states:
        obligations += 1
        usable = [tr.rx for pat, tr in trans[st] if tr is not None and not tr.has_assertion]
        sol = z3.Solver()
        cover = z3.Concat(R._union(usable), R.sigma_star())
        sol.add(z3.Length(x) >= 1, z3.Not(z3.InRe(x, cover)))
        r = check(sol)
        if r == "unsat":
            discharged += 1
            # twin: without its last rule the state is not covered (so the query can fail)
            if len(usable) > 1:
                s2 = z3.Solver()
                s2.add(z3.Length(x) >= 1, z3.Not(z3.InRe(x, z3.Concat(R._union(usable[:-1]), R.sigma_star()))))
                if check(s2) == "sat":
                    nontrivial += 1
            res["samples"].append({"obligation": f"R2 coverage of state {st}", "rules": len(usable), "verdict": "unsat"})
        elif r == "sat":
            w = sol.model()[x]
            text = w.as_string() if w is not None else ""
            try:
                text = bytes(text, "utf-8").decode("unicode_escape") if "\\u{" not in text else _unescape(text)
            except Exception:
                pass
            err = _real_error_token(lx, st, text)
            if err:
                violation("lexer emits an Error token", {"state": st, "text_at_state": text, "full_text": err})
            else:
                res["inconclusive"].append({"ob": "C17.R2", "state": "unknown",
                                            "message": f"state {st}: uncovered word {text!r} in the encoding does not "
                                                       f"produce an Error token for real (dropped assertion rule?)"})
        else:
            res["inconclusive"].append({"ob": "C17.R2", "state": r, "message": st})

    res.update({"obligations": obligations, "discharged": discharged, "distinct_nontrivial": nontrivial,
                "queries": queries, "solver_wall_s": round(solver_s, 2), "solver_cpu_s": round(solver_s, 2),
                "states": states, "rules": sum(len(v) for v in trans.values()),
                "translator_validations": validated,
                "headline": f"{discharged}/{obligations} obligations discharged over {len(states)} reachable states, "
                            f"{queries} z3 queries, {validated} translator validations, {round(time.time() - t0, 1)}s",
                "bounds": "unbounded text length; regex subset of Engine R; zero-width assertions dropped "
                          "(over-approximation for R1, rule excluded for R2)"})
    res["samples"].append({"obligation": "R1 progress", "rules_checked": sum(1 for v in trans.values() for _p, t in v if t)})
    return res


def _unescape(s: str) -> str:
    return re.sub(r"\\u\{([0-9a-fA-F]+)\}", lambda m: chr(int(m.group(1), 16)), s)


_ENTER = {"root": "", "mdq_string": '"""', "msq_string": "'''", "dq_string": '"', "sq_string": "'", }


def _real_error_token(lx: Any, state: str, text: str) -> str | None:
    """replay: bring the real lexer into `state` and feed `text`; return the full text if an Error token appears"""
    from pygments.token import Error

    pre = _ENTER.get(state)
    if pre is None:
        return None
    full = pre + text
    for _i, tt, _v in lx.get_tokens_unprocessed(full):
        if tt is Error:
            return full
    return None


def _lex_concat(text: str, q: Any) -> None:
    lx, _ = _table()
    q.put("".join(v for _i, _t, v in lx.get_tokens_unprocessed(text)))


def _real_hangs_or_loses(state: str, text: str) -> bool:
    """run the real lexer on (state entry + text) in a child process with a 5 s limit"""
    import multiprocessing as mp

    full = _ENTER.get(state, "") + text
    q: Any = mp.Queue()
    p = mp.Process(target=_lex_concat, args=(full, q))
    p.start()
    p.join(5)
    if p.is_alive():
        p.kill()
        p.join()
        return True
    try:
        return q.get(timeout=1) != full
    except Exception:
        return True


def _find_loss(lx: Any) -> Any:
    for s_ in _samples():
        got = "".join(v for _i, _t, v in lx.get_tokens_unprocessed(s_))
        if got != s_:
            return {"text": s_, "concatenation": got}
    return None


def replay(what: str, detail: Any) -> bool:
    """native replay of a recorded violation (returns False when it reproduces)"""
    from pygments.token import Error

    lx, _ = _table()
    if "hang_text" in detail:
        return not _real_hangs_or_loses("root", detail["hang_text"])
    if "full_text" in detail:
        return not any(tt is Error for _i, tt, _v in lx.get_tokens_unprocessed(detail["full_text"]))
    if "text" in detail:
        return "".join(v for _i, _t, v in lx.get_tokens_unprocessed(detail["text"])) == detail["text"]
    if "pattern" in detail:
        return re.compile(detail["pattern"], lx.flags).match("") is None
    return True
