"""C17 — the Pygments lexer is total and loses no text: regular-language obligations over the LIVE token table."""
from __future__ import annotations

import glob
import os
import re
import time
from typing import Any

import z3

from vlib import engine_r as R


def _table() -> tuple[Any, dict[str, list[Any]]]:
    from explorerscript.pygments.expslexer import ExplorerScriptLexer

    lx = ExplorerScriptLexer()
    return lx, lx._tokens


def _reachable(tokens: dict[str, list[Any]]) -> tuple[list[str], list[str]]:
    seen = ["root"]
    problems: list[str] = []
    todo = ["root"]
    while todo:
        st = todo.pop()
        for (_m, _a, new) in tokens[st]:
            if new is None:
                continue
            if isinstance(new, int):
                continue  # pop n
            if isinstance(new, tuple):
                for s in new:
                    if s == "#push" or s == "#pop":
                        continue
                    if s not in tokens:
                        problems.append(f"state {st}: transition to unknown state {s!r}")
                    elif s not in seen:
                        seen.append(s)
                        todo.append(s)
            else:
                problems.append(f"state {st}: unsupported transition {new!r}")
    return seen, problems


def _samples() -> list[str]:
    out = ["", "a", "\n", "'", '"', "'''", '"""', "/*", "//", "/* x */", "// x\n", ".5", "0x1F", "0b01", "017", "12",
           "$v", "@l", "§l", "if", "ifx", "menu2", "x5", "é", " ", "\t", "\\", "'a'b", '"a"b', "\r", "5.5"]
    for f in sorted(glob.glob("/repo/example/*.exps") + glob.glob("/repo/tests/**/*.exps", recursive=True))[:20]:
        try:
            t = open(f, encoding="utf-8").read()
        except Exception:
            continue
        for i in range(0, min(len(t), 1200), 37):
            out.append(t[i:i + 9])
    return out


def _bygroups_args(action: Any) -> Any:
    """the token types of a pygments `bygroups(...)` callback, or None if `action` is something else"""
    if getattr(action, "__qualname__", "").startswith("bygroups.") and getattr(action, "__closure__", None):
        for c in action.__closure__:
            if isinstance(c.cell_contents, tuple):
                return c.cell_contents
    return None


def _bygroups_exact(pat: Any, args: tuple, st: str, tokens: Any, check: Any, x: Any) -> tuple[str, Any]:
    """'exact' when groups 1..n tile every match; 'loses' with a witness text (decided by z3); 'unknown' otherwise"""
    import sre_constants as sc
    import sre_parse
    from pygments.token import _TokenType

    tree = sre_parse.parse(pat.pattern, pat.flags)
    t = R._T(pat.flags | tree.state.flags)
    items = list(tree)
    gids = [av[0] for op, av in items if op is sc.SUBPATTERN and av[0] is not None]
    if gids != list(range(1, len(args) + 1)):
        return "unknown", f"top-level groups {gids} do not match the {len(args)} bygroups arguments (nested or missing groups)"
    if tree.state.groups - 1 != len(args):
        return "unknown", "capturing groups nested inside groups (text would be emitted twice)"
    try:
        rxs = [t.node(op, av) for op, av in items]
    except R.Unsupported as e:
        return "unknown", f"untranslatable: {e}"
    # earlier rules of the state win over this one: the witness must not start with a match of any of them
    earlier = []
    for (m2, _a2, _n2) in tokens[st]:
        if m2.__self__ is pat:
            break
        try:
            tr = R.translate(m2.__self__.pattern, m2.__self__.flags)
            if not tr.has_assertion:
                earlier.append(tr.rx)
        except R.Unsupported:
            pass
    for i, (op, av) in enumerate(items):
        outside = not (op is sc.SUBPATTERN and av[0] is not None)
        dropped = (not outside) and not isinstance(args[av[0] - 1], _TokenType)
        if not outside and not dropped:
            continue
        if dropped and args[av[0] - 1] is not None:
            return "unknown", "bygroups argument that is itself a callback"
        a, u, b = z3.String("a"), z3.String("u"), z3.String("b")
        sol = z3.Solver()
        sol.add(z3.InRe(a, R._concat(rxs[:i]) if i else z3.Re(z3.StringVal(""))), z3.InRe(u, rxs[i]), z3.Length(u) >= 1,
                z3.InRe(b, R._concat(rxs[i + 1:]) if i + 1 < len(rxs) else z3.Re(z3.StringVal(""))),
                x == z3.Concat(a, u, b))
        if earlier:
            sol.add(z3.Not(z3.InRe(x, z3.Concat(R._union(earlier), R.sigma_star()))))
        r = check(sol)
        if r == "sat":
            w = sol.model().eval(x, model_completion=True).as_string()
            return "loses", {"state": st, "pattern": pat.pattern, "part": i, "text": _unescape(w)}
        if r != "unsat":
            return "unknown", f"solver answered {r} for the part outside the groups"
    return "exact", None


def run(tier: str, seed: int, known: list[dict[str, Any]]) -> dict[str, Any]:
    t0 = time.time()
    res: dict[str, Any] = {"engine": "R", "id": "C17.R", "violations": [], "harness_errors": [], "inconclusive": [],
                           "known_hits": [], "samples": []}
    lx, tokens = _table()
    states, problems = _reachable(tokens)
    from pygments.token import _TokenType

    queries = 0
    discharged = 0
    nontrivial = 0
    obligations = 0
    solver_s = 0.0

    def check(s: z3.Solver) -> str:
        nonlocal queries, solver_s
        queries += 1
        a = time.time()
        s.set("timeout", 60000)
        r = str(s.check())
        solver_s += time.time() - a
        return r

    def violation(what: str, detail: Any) -> None:
        import hashlib
        import json

        rec = {"property": "C17", "obligation": "C17.R", "what": what, "detail": detail,
               "module": "harness.pC17", "func": "replay", "args": [what, detail], "kwargs": {}}
        h = hashlib.sha256(json.dumps(rec, sort_keys=True, default=str).encode()).hexdigest()[:12]
        d = os.path.join(os.path.dirname(os.path.dirname(os.path.abspath(__file__))), "replays", "C17")
        os.makedirs(d, exist_ok=True)
        path = os.path.join(d, f"C17.R-{h}.json")
        json.dump(rec, open(path, "w"), indent=1, default=str)
        res["violations"].append({"ob": "C17.R", "replay": path, "message": f"{what}: {detail}"})

    # ---- R3 structural side conditions ------------------------------------------------------------------
    # plain token actions emit the whole match. A `bygroups` action emits the texts of groups 1..n only: the solver
    # decides, per part of the rule that lies outside those groups, whether it can match a non-empty text.
    obligations += 1
    x = z3.String("x")
    struct_ok = not problems
    lost: list[dict[str, Any]] = []
    for st in states:
        for ri, (m, action, new) in enumerate(tokens[st]):
            if isinstance(action, _TokenType):
                continue
            pat = m.__self__
            args = _bygroups_args(action)
            if args is None:
                struct_ok = False
                problems.append(f"state {st}: rule {pat.pattern!r} has a callback action that is not bygroups (not modelled)")
                continue
            verdict_, why = _bygroups_exact(pat, args, st, tokens, check, x)
            if verdict_ == "exact":
                continue
            struct_ok = False
            if verdict_ == "loses":
                lost.append(why)
            else:
                problems.append(f"state {st}: bygroups rule {pat.pattern!r}: {why}")
    if struct_ok:
        discharged += 1
    else:
        reported = False
        for w in lost:
            full = _ENTER.get(w["state"], "") + w["text"]
            done, got = _child(_concat_child, (full,))
            if not done or got != full:
                violation("token texts do not concatenate to the input", {"text": full, "concatenation": got, "rule": w["pattern"],
                                                                          "outside_groups": w["part"]})
                reported = True
                break
        if not reported:
            # replayable fallback: run the real lexer on sample texts and compare the concatenation
            bad = _find_loss(lx)
            if bad is not None:
                violation("token texts do not concatenate to the input", bad)
            else:
                res["inconclusive"].append({"ob": "C17.R3", "state": "unknown",
                                            "message": "; ".join(problems + [f"solver witness {w['text']!r} for {w['pattern']!r} "
                                                                             f"did not lose text for real" for w in lost])})

    # ---- translate ------------------------------------------------------------------------------------------
    trans: dict[str, list[tuple[Any, Any]]] = {}
    for st in states:
        trans[st] = []
        for (m, action, new) in tokens[st]:
            pat = m.__self__
            try:
                trans[st].append((pat, R.translate(pat.pattern, pat.flags)))
            except R.Unsupported as e:
                trans[st].append((pat, None))
                res["inconclusive"].append({"ob": "C17.R", "state": "unknown",
                                            "message": f"untranslatable rule {pat.pattern!r}: {e}"})

    # ---- translator validation (Serval style): real `re` vs encoding on sample strings ----------------------------
    validated = 0
    x = z3.String("x")
    for st in states:
        for pat, tr in trans[st]:
            if tr is None:
                continue
            for s_ in _samples():
                m = pat.match(s_)
                if m is not None:
                    g = m.group()
                    sol = z3.Solver()
                    sol.add(z3.InRe(z3.StringVal(g), tr.rx))
                    if check(sol) != "sat":
                        res["harness_errors"].append({"ob": "C17.R", "what": "translator disagrees with re (match not in L)",
                                                      "pattern": pat.pattern, "text": g})
                    validated += 1
                elif not tr.has_assertion and len(s_) <= 9:
                    # no prefix of s_ matches for real -> no prefix may be in L
                    sol = z3.Solver()
                    sol.add(z3.InRe(z3.StringVal(s_), z3.Concat(tr.rx, R.sigma_star())))
                    if check(sol) != "unsat":
                        if all(ord(c) < 128 for c in s_):
                            res["harness_errors"].append({"ob": "C17.R", "what": "translator disagrees with re (L has a prefix re rejects)",
                                                          "pattern": pat.pattern, "text": s_})
                    validated += 1

    # ---- R1 progress: no rule of a reachable state matches the empty string -------------------------------------
    for st in states:
        for (pat, tr), (m, action, new) in zip(trans[st], tokens[st]):
            if tr is None:
                continue
            obligations += 1
            sol = z3.Solver()
            sol.add(z3.InRe(x, tr.rx), z3.Length(x) == 0)
            r = check(sol)
            if r == "unsat":
                discharged += 1
                # twin: the rule matches something (query not vacuous)
                s2 = z3.Solver()
                s2.add(z3.InRe(x, tr.rx), z3.Length(x) >= 1)
                if check(s2) == "sat":
                    nontrivial += 1
            elif r == "sat":
                # A rule that matches the empty word is tried at end of text, where no (non-empty) earlier rule can
                # match: Pygments' loop then never advances. Replay: a text that ends inside this state.
                if _real_hangs_or_loses(st, ""):
                    violation("rule matches the empty string: the lexer does not terminate at the end of a text that "
                              "ends in this state", {"state": st, "pattern": pat.pattern,
                                                     "hang_text": _ENTER.get(st, "")})
                else:
                    res["inconclusive"].append({"ob": "C17.R1", "state": "unknown",
                                                "message": f"empty match of {pat.pattern!r} in {st} not reproduced "
                                                           f"(over-approximated assertion?)"})
            else:
                res["inconclusive"].append({"ob": "C17.R1", "state": r, "message": pat.pattern})

    # ---- R2 coverage: in every reachable state, every non-empty text has a matching rule at position 0 -----------
    for st in states:
        obligations += 1
        usable = [tr.rx for pat, tr in trans[st] if tr is not None and not tr.has_assertion]
        sol = z3.Solver()
        cover = z3.Concat(R._union(usable), R.sigma_star())
        sol.add(z3.Length(x) >= 1, z3.Not(z3.InRe(x, cover)))
        r = check(sol)
        if r == "unsat":
            discharged += 1
            # twin: without its last rule the state is not covered (so the query can fail)
            if len(usable) > 1:
                s2 = z3.Solver()
                s2.add(z3.Length(x) >= 1, z3.Not(z3.InRe(x, z3.Concat(R._union(usable[:-1]), R.sigma_star()))))
                if check(s2) == "sat":
                    nontrivial += 1
            res["samples"].append({"obligation": f"R2 coverage of state {st}", "rules": len(usable), "verdict": "unsat"})
        elif r == "sat":
            w = sol.model()[x]
            text = w.as_string() if w is not None else ""
            try:
                text = bytes(text, "utf-8").decode("unicode_escape") if "\\u{" not in text else _unescape(text)
            except Exception:
                pass
            err = _accepted_error_text(st, text)
            if not err and st in _BODY:
                # the solver's first witness cannot be completed into an accepted source (e.g. a lone backslash): ask for an
                # uncovered word inside the language of accepted string bodies of this state
                s3 = z3.Solver()
                s3.add(z3.Length(x) >= 1, z3.Not(z3.InRe(x, cover)), z3.InRe(x, R.translate(_BODY[st], re.DOTALL).rx))
                if check(s3) == "sat":
                    w3 = s3.model()[x]
                    text = _unescape(w3.as_string()) if w3 is not None else text
                    err = _accepted_error_text(st, text)
            if err:
                violation("lexer emits an Error token for a source the compiler accepts", {"state": st, "text_at_state": text, "full_text": err})
            elif _real_error_token(lx, st, text):
                # an Error token, but only on a text the compiler rejects: the property is silent about such texts
                res["inconclusive"].append({"ob": "C17.R2", "state": "unknown",
                                            "message": f"state {st}: {text!r} is not covered by any rule (Error token for real), but "
                                                       f"no completion of it into a source the compiler accepts was found"})
            else:
                res["inconclusive"].append({"ob": "C17.R2", "state": "unknown",
                                            "message": f"state {st}: uncovered word {text!r} in the encoding does not "
                                                       f"produce an Error token for real (dropped assertion rule?)"})
        else:
            res["inconclusive"].append({"ob": "C17.R2", "state": r, "message": st})

    res.update({"obligations": obligations, "discharged": discharged, "distinct_nontrivial": nontrivial,
                "queries": queries, "solver_wall_s": round(solver_s, 2), "solver_cpu_s": round(solver_s, 2),
                "states": states, "rules": sum(len(v) for v in trans.values()),
                "translator_validations": validated,
                "headline": f"{discharged}/{obligations} obligations discharged over {len(states)} reachable states, "
                            f"{queries} z3 queries, {validated} translator validations, {round(time.time() - t0, 1)}s",
                "bounds": "unbounded text length; regex subset of Engine R; zero-width assertions dropped "
                          "(over-approximation for R1, rule excluded for R2)"})
    res["samples"].append({"obligation": "R1 progress", "rules_checked": sum(1 for v in trans.values() for _p, t in v if t)})
    return res


def _unescape(s: str) -> str:
    return re.sub(r"\\u\{([0-9a-fA-F]+)\}", lambda m: chr(int(m.group(1), 16)), s)


_ENTER = {"root": "", "mdq_string": '"""', "msq_string": "'''", "dq_string": '"', "sq_string": "'", }


def _child(fn: Any, args: tuple, limit: float = 10.0) -> tuple[bool, Any]:
    """run fn(*args, q) in a child process; (finished, value). The seeded or broken table may make the real lexer loop."""
    import multiprocessing as mp

    q: Any = mp.Queue()
    p = mp.Process(target=fn, args=args + (q,))
    p.start()
    try:
        v = q.get(timeout=limit)
        p.join(2)
        return True, v
    except Exception:
        return False, None
    finally:
        if p.is_alive():
            p.kill()
            p.join()


# bodies the grammar accepts between the delimiters of each string state (SsbCommon.g4 STRING_LITERAL / MULTILINE_STRING_LITERAL;
# multi-line bodies are restricted to bodies without the delimiter's quote character, which is enough for a witness)
_BODY = {"dq_string": r'''(?:\\.|[^\\\r\n\f"])*''', "sq_string": r"""(?:\\.|[^\\\r\n\f'])*""",
         "mdq_string": r'''[^"]*''', "msq_string": r"""[^']*"""}
_CLOSE = {"root": "", "mdq_string": '"""', "msq_string": "'''", "dq_string": '"', "sq_string": "'"}


def _accepted_error_text(state: str, text: str) -> str | None:
    """complete (state entry + text) into sources; return one that the real compiler accepts and for which the real lexer
    emits an Error token"""
    from harness.pC01 import compile_text

    if state not in _ENTER:
        return None
    core = _ENTER[state] + text + _CLOSE[state]
    if state == "root":
        cands = [core, "def 0 { a(); }\n" + core, "def 0 { " + core + " }", "def 0 { a(" + core + "); }", "def 0 { " + core + "; }"]
    else:
        cands = ["def 0 { a(" + core + "); }", "def 0 { a(" + core + "); }\n"]
    for c in cands:
        try:
            compile_text(c)
        except Exception:  # noqa
            continue
        done, err = _child(_error_token_child, (c,))
        if done and err:
            return c
    return None


def _error_token_child(full: str, q: Any) -> None:
    from pygments.token import Error

    lx, _ = _table()
    q.put(any(tt is Error for _i, tt, _v in lx.get_tokens_unprocessed(full)))


def _real_error_token(lx: Any, state: str, text: str) -> str | None:
    """replay: bring the real lexer into `state` and feed `text`; return the full text if an Error token appears"""
    pre = _ENTER.get(state)
    if pre is None:
        return None
    full = pre + text
    done, err = _child(_error_token_child, (full,))
    return full if done and err else None


def _lex_concat(text: str, q: Any) -> None:
    lx, _ = _table()
    q.put("".join(v for _i, _t, v in lx.get_tokens_unprocessed(text)))


def _real_hangs_or_loses(state: str, text: str) -> bool:
    """run the real lexer on (state entry + text) in a child process with a 5 s limit"""
    import multiprocessing as mp

    full = _ENTER.get(state, "") + text
    q: Any = mp.Queue()
    p = mp.Process(target=_lex_concat, args=(full, q))
    p.start()
    p.join(5)
    if p.is_alive():
        p.kill()
        p.join()
        return True
    try:
        return q.get(timeout=1) != full
    except Exception:
        return True


def _find_loss_child(q: Any) -> None:
    lx, _ = _table()
    for s_ in _samples():
        got = "".join(v for _i, _t, v in lx.get_tokens_unprocessed(s_))
        if got != s_:
            q.put({"text": s_, "concatenation": got})
            return
    q.put(None)


def _find_loss(lx: Any) -> Any:
    done, v = _child(_find_loss_child, (), 60.0)
    return v if done else None


def _concat_child(text: str, q: Any) -> None:
    lx, _ = _table()
    q.put("".join(v for _i, _t, v in lx.get_tokens_unprocessed(text)))


def replay(what: str, detail: Any) -> bool:
    """native replay of a recorded violation (returns False when it reproduces)"""
    if "hang_text" in detail:
        return not _real_hangs_or_loses("root", detail["hang_text"])
    if "full_text" in detail:
        done, err = _child(_error_token_child, (detail["full_text"],))
        return not (done and err)
    if "text" in detail:
        done, got = _child(_concat_child, (detail["text"],))
        return done and got == detail["text"]
    if "pattern" in detail:
        lx, _ = _table()
        return re.compile(detail["pattern"], lx.flags).match("") is None
    return True
