"""C01 part E3 — whole programs: real compiler output vs the reference semantics, all outcomes (Engine T)."""
from __future__ import annotations

from typing import Any

from spec import es_ast, es_sem, ssb_machine
from spec.families import programs
from vlib import engine_t, trun

PERF = "$PERFORMANCE_PROGRESS_LIST"


def compile_text(text: str, file_name: str = "/dev/null", lookup: list[str] | None = None) -> Any:
    from explorerscript.ssb_converting.ssb_compiler import ExplorerScriptSsbCompiler

    c = ExplorerScriptSsbCompiler(PERF, lookup or [])
    c.compile(text, file_name)
    return c


def compare_program(name: str, prog: dict[str, Any], text: str | None = None, compiled: Any = None) -> dict[str, Any]:
    """compile `prog` (or use `compiled`) and decide, per routine, trace equivalence with es_sem for all outcomes"""
    from explorerscript.error import SsbCompilerError, ParseError

    text = text if text is not None else es_ast.to_text(prog)
    try:
        g, entries = es_sem.program_lts(prog)
        want_infos = es_sem.routine_infos(prog)
    except es_sem.SemError as e:
        return {"status": "harness_error", "what": f"generator produced an invalid program: {e}", "program": prog}
    if compiled is None:
        try:
            compiled = compile_text(text)
        except Exception as e:  # noqa  (C01 is conditional on acceptance; exception types are C10's subject)
            return {"status": "rejected", "what": f"{type(e).__name__}: {str(e)[:200]}", "program": prog, "text": text}
    stats = engine_t.Stats()
    out: dict[str, Any] = {"status": "ok", "routines": 0, "equal": 0, "program": prog}
    # routine tables: ids, kinds, targets, coroutine names (direct comparison, side condition)
    got_infos = ssb_machine.infos(compiled.routine_infos, compiled.named_coroutines)
    if got_infos != want_infos:
        out.update({"status": "violation", "what": f"routine table differs: compiled {got_infos} != source {want_infos}",
                    "witness": {"kind": "routine_table", "text": text, "got": repr(got_infos), "want": repr(want_infos)}})
        return out
    try:
        gm, em = ssb_machine.ops_lts(compiled.routine_ops)
    except ssb_machine.MachineError as e:
        out.update({"status": "violation", "what": f"compiled ops are not executable on the SSB machine: {e}",
                    "witness": {"kind": "machine", "text": text, "error": str(e)}})
        return out
    for i, (ea, eb) in enumerate(zip(entries, em)):
        if ea is None or eb is None:
            if (ea is None) != (eb is None):
                out.update({"status": "violation", "what": f"routine {i}: alias/empty mismatch",
                            "witness": {"kind": "alias", "text": text, "routine": i}})
                return out
            continue
        g.entry, gm.entry = ea, eb
        va, vb = g.visible(), gm.visible()
        out["routines"] += 1
        r = engine_t.equivalent(va, vb, stats)
        if r["verdict"] == "equal":
            out["equal"] += 1
        elif r["verdict"] == "differ":
            out.update({"status": "violation",
                        "what": f"routine {i}: after outcomes {r['outcomes']} the source performs {r['labels'][0]} "
                                f"but the compiled routine performs {r['labels'][1]}",
                        "witness": {"kind": "trace", "text": text, "routine": i, "outcomes": r["outcomes"],
                                    "source_trace": repr(r["trace_a"]), "compiled_trace": repr(r["trace_b"])}})
            break
        else:
            out.update({"status": "inconclusive", "what": f"routine {i}: {r.get('why')}"})
            break
    out["queries"] = {"q1": stats.q1, "q2": stats.q2, "solver_s": stats.solver_s, "states": stats.states,
                      "transitions": stats.transitions, "k_hist": stats.k_hist}
    if out["status"] == "ok":
        out["sample"] = {"program": text[:400], "routines": out["routines"], "verdict": "equal for all outcomes",
                         "K": max(stats.k_hist) if stats.k_hist else None}
        out.pop("program", None)
    return out


def task(name: str, prog: dict[str, Any]) -> dict[str, Any]:
    return compare_program(name, prog)


def replay(name: str, prog_repr: str, witness: dict[str, Any]) -> bool:
    """native replay: recompile the text and walk both sides on the recorded outcomes; False = reproduces"""
    prog = trun.parse_prog(prog_repr)
    r = compare_program(name, prog)
    return r["status"] != "violation"


def classify(r: dict[str, Any]) -> str | None:
    return None


def run(tier: str, seed: int, known: list[dict[str, Any]]) -> dict[str, Any]:
    progs = list(programs(tier, seed))
    return trun.run_family("C01", "C01.E3", task, progs, known, classify,
                           bounds=f"families F1-F4 ({tier}); per routine Q1/Q2 with completeness threshold K<=512")
