"""C07 part E3 — larger inputs: SsbScript round trip compared op for op (model validation / replay path of S1)."""
from __future__ import annotations

import copy
from typing import Any

from spec import es_ast
from spec.families import programs, f6_raw, build_raw
from vlib import trun
from harness import pC02, pC06


def task(name: str, item: Any) -> dict[str, Any]:
    from explorerscript.ssb_script.ssb_converting.ssb_decompiler import SsbScriptSsbDecompiler
    from explorerscript.ssb_script.ssb_converting.ssb_compiler import SsbScriptSsbCompiler
    from explorerscript.ssb_converting.ssb_data_types import SsbCoroutine
    from harness.pC01 import compile_text

    if isinstance(item, tuple) and item and item[0] == "raw":
        infos, ops, named = build_raw(item)
    else:
        try:
            c = compile_text(es_ast.to_text(item))
        except Exception as e:  # noqa
            return {"status": "rejected", "what": type(e).__name__}
        infos, ops, named = c.routine_infos, pC02.renumber(c.routine_ops), c.named_coroutines
    coros = [SsbCoroutine(i, n) for i, n in enumerate(named) if isinstance(n, str)]
    text, _sm = SsbScriptSsbDecompiler(copy.deepcopy(infos), copy.deepcopy(ops), coros).convert()
    comp = SsbScriptSsbCompiler()
    comp.compile(text)
    diff = pC06.ops_equal_up_to_offsets(ops, comp.routine_ops)
    from spec import ssb_machine

    if diff is None and ssb_machine.infos(infos, named) != ssb_machine.infos(comp.routine_infos, comp.named_coroutines):
        diff = "routine table differs"
    if diff is not None:
        return {"status": "violation", "kind": "roundtrip", "program": item,
                "what": "SsbScript round trip is not lossless: " + diff, "witness": {"ssbscript": text[:800]}}
    return {"status": "ok", "routines": len(ops), "equal": len(ops),
            "sample": {"ssbscript": text[:200], "ops": sum(len(r) for r in ops)}}


def replay(name: str, item_repr: str, witness: Any) -> bool:
    return task(name, trun.parse_prog(item_repr))["status"] != "violation"


def run(tier: str, seed: int, known: list[dict[str, Any]]) -> dict[str, Any]:
    items: list[tuple[str, Any]] = [p for i, p in enumerate(programs(tier, seed)) if tier != "quick" or i % 3 == 0]
    items += list(f6_raw(seed, 300 if tier == "quick" else 5000, 6 if tier == "quick" else 9))
    r = trun.run_family("C07", "C07.E3", task, items, known, None,
                        bounds="model validation: F6 inputs through the SsbScript round trip, op-for-op comparison")
    r["headline"] = f"{r['programs']} concrete routine sets round-tripped op for op, {r['disagreements_checked']} differences"
    r["obligations"] = r["discharged"] = r["distinct_nontrivial"] = 0
    return r
