"""C15 part S1 — numbering lemma: the JSON the compile CLI builds, read by the decompile CLI's reader, makes every
jump parameter equal the offset the reader gives to the target op (Engine X on the real build_/read_ functions)."""
from __future__ import annotations

from typing import Any

import explorerscript.cli.compile as cc
import explorerscript.cli.decompile as cd
from explorerscript.ssb_converting.ssb_data_types import (SsbOperation, SsbOpCode, SsbRoutineInfo, SsbRoutineType,
                                                         SsbOpParamConstant)
from vlib.hx import verdict, CASE, NATIVE

LAST_DETAIL: Any = None
_c = CASE or 0
N_OPS = 2 + _c % 3          # 2..4 ops
SPLIT = (_c // 3) % 2        # 1: two routines (first has 1 op)
KIND1 = ["Jump", "Branch", "Call"][(_c // 6) % 3]
RKIND = (_c // 18) % 5       # kind of one of the two routines in the split layout: generic / actor / object / performer / coroutine


def cases() -> list[int]:
    # all 18 layouts with generic routines; the split layouts with 3-4 ops again with each other routine kind
    return list(range(18)) + [18 * k + c for k in range(1, 5) for c in (4, 5, 10, 11, 16, 17)]


def _renumber_reference(offsets: list[int]) -> dict[int, int]:
    """documented numbering: 1-based position across all routines"""
    return {o: i + 1 for i, o in enumerate(offsets)}


def h_numbering(g0: int, g1: int, g2: int, g3: int, t0: int, t1: int, j0: bool, j1: bool, j2: bool, j3: bool) -> bool:
    """
    pre: 1 <= g0 <= 3 and 1 <= g1 <= 3 and 1 <= g2 <= 3 and 1 <= g3 <= 3
    pre: 0 <= t0 < N_OPS and 0 <= t1 < N_OPS
    post: _
    """
    global LAST_DETAIL
    gaps = [g0, g1, g2, g3][:N_OPS]
    offsets = []
    o = 0
    for g in gaps:
        o += g           # strictly increasing, gaps of 0..2 dropped ops
        offsets.append(o)
    is_jump = [j0, j1, j2, j3][:N_OPS]
    ops = []
    for i in range(N_OPS):
        if is_jump[i]:
            tgt = offsets[t0 if i % 2 == 0 else t1]
            if KIND1 == "Branch":
                ops.append(SsbOperation(offsets[i], SsbOpCode(-1, "Branch"), [SsbOpParamConstant("$V"), 3, tgt]))
            else:
                ops.append(SsbOperation(offsets[i], SsbOpCode(-1, KIND1), [tgt]))
        else:
            ops.append(SsbOperation(offsets[i], SsbOpCode(-1, "plain"), [i]))
    if SPLIT:
        routine_ops = [ops[:1], ops[1:]]
    else:
        routine_ops = [ops]
    infos = [SsbRoutineInfo(SsbRoutineType.GENERIC, 0) for _ in routine_ops]
    named: list[Any] = [[] for _ in routine_ops]
    if SPLIT and RKIND:
        which = (RKIND + _c) % 2  # the other kind comes first or second
        rt = [SsbRoutineType.GENERIC, SsbRoutineType.ACTOR, SsbRoutineType.OBJECT, SsbRoutineType.PERFORMER,
              SsbRoutineType.COROUTINE][RKIND]
        infos[which] = SsbRoutineInfo(rt, 3 if rt != SsbRoutineType.COROUTINE else which)
        if rt == SsbRoutineType.COROUTINE:
            named[which] = "CORO_X"
    doc = cc.build_routines_json(infos, named, routine_ops)  # type: ignore
    if hasattr(cd, "counter"):
        cd.counter.count = 0  # older layout: module-level counter (reset is the harness playing a fresh process)
    r_infos, r_coros, r_ops = cd.read_routines(doc)  # type: ignore
    flat = [op for r in r_ops for op in r]
    ok = len(flat) == N_OPS and [len(r) for r in r_ops] == [len(r) for r in routine_ops]
    if ok:
        for i in range(N_OPS):
            # internal offsets are the reader's business as long as they identify the ops (pairwise distinct)
            ok = ok and flat[i].op_code.name == ops[i].op_code.name
            for j in range(i):
                ok = ok and flat[j].offset != flat[i].offset
            if is_jump[i]:
                want_target_index = t0 if i % 2 == 0 else t1
                ok = ok and flat[i].params[-1] == flat[want_target_index].offset
                ok = ok and list(flat[i].params[:-1]) == list(ops[i].params[:-1])
            else:
                ok = ok and list(flat[i].params) == [i]
    if NATIVE:
        LAST_DETAIL = {"offsets": [int(x) for x in offsets], "json": str(doc)[:600]}
    return verdict(ok)


OBLIGATIONS = [
    {"id": "C15.S1", "module": __name__, "func": "h_numbering",
     "what": "read_routines(build_routines_json(x)): ops keep order/opcode/params, the reader numbers them 1..n across "
             "routines and every jump parameter equals the number of its target op, for internal offsets with gaps",
     "cases": cases(),
     "timeout": {"quick": 120, "thorough": 600},
     "bounds": "2-4 ops in 1-2 routines, symbolic gaps 0-2 between internal offsets, symbolic jump flags and targets, "
               "jump kinds Jump/Branch/Call (case split); two-routine layouts also with an actor / object / performer / "
               "coroutine routine first or second",
     "encodes": ["explorerscript.cli.compile.build_ops", "explorerscript.cli.compile.build_routines_json",
                 "explorerscript.cli.decompile.read_ops", "explorerscript.cli.decompile.read_routines"],
     "stubs": ["json.dumps/json.loads between the two commands are the identity on this data (ints, strs, lists, dicts "
               "with str keys); exercised for real by the end-to-end part"]},
]


# ---- S2: argument types -------------------------------------------------------------------------------------------
from explorerscript.ssb_converting.ssb_data_types import (SsbOpParamConstString, SsbOpParamLanguageString,
                                                         SsbOpParamPositionMarker, SsbOpParamFixedPoint, SsbCoroutine)

ARG_KIND = _c % 6


def h_args(i: int, s: str, t: str, xr: int, yr: int, half_x: bool, half_y: bool) -> bool:
    """
    pre: len(s) <= 2 and len(t) <= 2 and -3 <= xr <= 3 and -3 <= yr <= 3 and -50 <= i <= 50
    post: _
    """
    global LAST_DETAIL
    if ARG_KIND == 0:
        p: Any = i
    elif ARG_KIND == 1:
        p = SsbOpParamConstant(s)
    elif ARG_KIND == 2:
        p = SsbOpParamConstString(s)
    elif ARG_KIND == 3:
        p = SsbOpParamLanguageString({"english": s, "german": t})
    elif ARG_KIND == 4:
        p = SsbOpParamPositionMarker(s, 2 if half_x else 0, 2 if half_y else 0, xr, yr)
    else:
        p = SsbOpParamFixedPoint(i, "25")
    op = SsbOperation(5, SsbOpCode(-1, "anyop"), [p, 7])
    doc = cc.build_ops([op])
    if hasattr(cd, "counter"):
        cd.counter.count = 0  # older layout: module-level counter (reset is the harness playing a fresh process)
    back = cd.read_ops(doc)  # type: ignore
    ok = len(back) == 1 and back[0].op_code.name == "anyop" and len(back[0].params) == 2 and back[0].params[1] == 7
    if ok:
        q = back[0].params[0]
        ok = type(q) is type(p) or (ARG_KIND == 0 and isinstance(q, int))
        ok = ok and p == q
        if ARG_KIND == 4:
            ok = ok and s == q.name
    return verdict(ok)


def h_posmark_doc_format(name: str, x: int, y: int, hx: bool, hy: bool) -> bool:
    """
    pre: len(name) <= 1 and -3 <= x <= 3 and -3 <= y <= 3
    post: _
    """
    # docs/cli_api_usage.rst shows the coordinates as JSON numbers (10, 20.5)
    halves = [-2.5, -1.5, -0.5, 0.5, 1.5, 2.5, 3.5]  # concrete floats selected by a symbolic index (no float arithmetic)
    wholes = [-3, -2, -1, 0, 1, 2, 3]
    xv: Any = halves[x + 3] if hx else wholes[x + 3]
    yv: Any = halves[y + 3] if hy else wholes[y + 3]
    doc = [{"opcode": "o", "params": [{"type": "POSITION_MARK", "value": {"name": name, "x": xv, "y": yv}}]}]
    if hasattr(cd, "counter"):
        cd.counter.count = 0  # older layout: module-level counter (reset is the harness playing a fresh process)
    back = cd.read_ops(doc)  # type: ignore
    q = back[0].params[0]
    want_x, want_xo = (x, 2) if hx else (x, 0)
    want_y, want_yo = (y, 2) if hy else (y, 0)
    # a JSON number n.5 with negative n denotes tile n (as the language does for -1.5): python renders -1 + .5 as -0.5
    if hx and x < 0:
        return verdict(True)
    if hy and y < 0:
        return verdict(True)
    return verdict(isinstance(q, SsbOpParamPositionMarker) and q.x_relative == want_x and q.x_offset == want_xo
                   and q.y_relative == want_y and q.y_offset == want_yo and name == q.name)


ROUT_KINDS = ["COROUTINE", "GENERIC", "ACTOR", "OBJECT", "PERFORMER"]


def h_routines(k0: int, k1: int, k2: int, n0: str, n1: str, target: int, named_target: bool) -> bool:
    """
    pre: 0 <= k0 <= 4 and 0 <= k1 <= 4 and 0 <= k2 <= 4 and 1 <= len(n0) <= 2 and 1 <= len(n1) <= 2 and -2 <= target <= 9
    post: _
    """
    kinds = [ROUT_KINDS[k0], ROUT_KINDS[k1], ROUT_KINDS[k2]]
    names = [n0, n1, n0 + n1]
    doc = []
    for i, k in enumerate(kinds):
        r: dict[str, Any] = {"type": k, "ops": []}
        if k == "COROUTINE":
            r["name"] = names[i]
        elif k != "GENERIC":
            r["target_id"] = names[i] if named_target else target
        doc.append(r)
    if hasattr(cd, "counter"):
        cd.counter.count = 0  # older layout: module-level counter (reset is the harness playing a fresh process)
    infos, coros, ops = cd.read_routines(doc)  # type: ignore
    lookup = {c.id: c.name for c in coros}  # what ExplorerScriptSsbDecompiler.__init__ builds
    ok = len(infos) == 3 and len(ops) == 3
    for i, k in enumerate(kinds):
        ok = ok and infos[i].type.name == k
        if k == "COROUTINE":
            ok = ok and i in lookup and names[i] == lookup[i]
        elif k != "GENERIC":
            if named_target:
                ok = ok and names[i] == infos[i].linked_to_name and infos[i].linked_to_repr == names[i]
            else:
                ok = ok and infos[i].linked_to == target and infos[i].linked_to_name is None
    return verdict(ok)


OBLIGATIONS[0]["cases"] = {"quick": [c for c in cases() if c % 3 != 2 and (c < 18 or c % 18 == 4 + 6 * ((c // 18) % 3))],
                           "thorough": cases()}
OBLIGATIONS[0]["bounds"] = {"quick": OBLIGATIONS[0]["bounds"].replace("2-4 ops", "2-3 ops"), "thorough": OBLIGATIONS[0]["bounds"]}
OBLIGATIONS += [
    {"id": "C15.S2", "module": __name__, "func": "h_args",
     "what": "every argument type the compile command writes is read back by the decompile command as an equal parameter",
     "cases": list(range(6)), "timeout": {"quick": 120, "thorough": 600},
     "bounds": "one parameter of each documented type (case split): ints in [-50,50], strings |s|<=2, tile coordinates "
               "in [-3,3] with/without half offsets",
     "encodes": ["explorerscript.cli.compile.build_ops", "explorerscript.cli.decompile.read_ops",
                 "explorerscript.cli.decompile.parse_pos_mark_arg"]},
    {"id": "C15.S2b", "module": __name__, "func": "h_posmark_doc_format",
     "what": "position marks in the documented JSON form (coordinates as JSON numbers 10 / 20.5) are accepted and denote "
             "(tile, half offset)",
     "timeout": {"quick": 120, "thorough": 600},
     "bounds": "|name|<=2, tiles in [-3,3], half flags symbolic (negative half tiles excluded: float rendering)",
     "encodes": ["explorerscript.cli.decompile.read_ops", "explorerscript.cli.decompile.parse_pos_mark_arg"]},
    {"id": "C15.S3", "module": __name__, "func": "h_routines",
     "what": "every documented routine type is accepted; a coroutine's name is registered under the id the decompiler "
             "looks it up with (the routine index); integer and named targets are kept",
     "timeout": {"quick": 200, "thorough": 900},
     "bounds": "3 routines with symbolic kinds, names |n|<=2, target in [-2,9] or a name",
     "encodes": ["explorerscript.cli.decompile.read_routines"]},
]
