"""C03 — compiled output is a closed, uniquely addressed op list: the real back end of compile()
(strip_last_label -> LabelFinalizer -> OpsLabelJumpToRemover) on symbolic labelled op lists (Engine X)."""
from __future__ import annotations

from typing import Any

from explorerscript.error import SsbCompilerError
from explorerscript.ssb_converting.compiler.label_finalizer import LabelFinalizer
from explorerscript.ssb_converting.compiler.label_jump_to_remover import OpsLabelJumpToRemover
from explorerscript.ssb_converting.compiler.utils import strip_last_label, routine_op_offsets_are_ordered
from explorerscript.ssb_converting.ssb_data_types import SsbOperation, SsbOpCode
from explorerscript.ssb_converting.ssb_special_ops import SsbLabel, SsbLabelJump, OPS_WITH_JUMP_TO_MEM_OFFSET
from vlib.hx import verdict, CASE, NATIVE, tb

import os as _os

LAST_DETAIL: Any = None
_c = CASE or 0
KINDS = ["plain", "ctx", "Return", "label", "Jump", "Branch"]
LONG = _c >= 100000  # second family: 5 elements over {plain, Jump, label, Branch}, one routine (cases 100000 + code)
if LONG:
    N = 5
    SPLIT = 0
    _k = _c - 100000
    _K4 = ["plain", "Jump", "label", "Branch"]
    EL = []
    for _i in range(N):
        EL.append(_K4[_k % 4])
        _k //= 4
else:
    N = tb(3, 4)
    SPLIT = _c % 2
    _k = _c // 2
    EL = []
    for _i in range(N):
        EL.append(KINDS[_k % 6])
        _k //= 6


def long_cases() -> list[int]:
    """5-element lists over {plain, Jump, label, Branch} with at least two labels and two jump ops"""
    import itertools

    out = []
    for seq in itertools.product(range(4), repeat=5):
        if sum(1 for k in seq if k == 2) >= 2 and sum(1 for k in seq if k in (1, 3)) >= 2:
            out.append(100000 + sum(k * 4 ** i for i, k in enumerate(seq)))
    return out


def cases(n: int) -> list[int]:
    return list(range(2 * 6 ** n))


def build(ids: list[int], gaps: list[int]) -> tuple[list[list[SsbOperation]], list[int], list[int]]:
    """labelled lists as the visitors hand them over: labels are shared objects per id, offsets from one counter"""
    labels: dict[int, SsbLabel] = {}

    def lab(i: int) -> SsbLabel:
        for k in (0, 1, 2):
            if i == k:
                if k not in labels:
                    labels[k] = SsbLabel(k, -1, "h", f"l{k}")
                return labels[k]
        raise AssertionError("label id out of range")

    ops: list[SsbOperation] = []
    off = 0
    defined: list[int] = []
    used: list[int] = []
    for i in range(N):
        k = EL[i]
        if k == "label":
            ops.append(lab(ids[i]))
            defined.append(ids[i])
            continue
        off = off + gaps[i]
        if k == "plain":
            ops.append(SsbOperation(off, SsbOpCode(-1, "plain"), [i]))
        elif k == "ctx":
            ops.append(SsbOperation(off, SsbOpCode(-1, "lives"), [1]))
        elif k == "Return":
            ops.append(SsbOperation(off, SsbOpCode(-1, "Return"), []))
        elif k == "Jump":
            ops.append(SsbLabelJump(SsbOperation(off, SsbOpCode(-1, "Jump"), []), lab(ids[i])))
            used.append(ids[i])
        else:
            ops.append(SsbLabelJump(SsbOperation(off, SsbOpCode(-1, "Branch"), [7, 8]), lab(ids[i])))
            used.append(ids[i])
    routines = [ops[:1], ops[1:]] if SPLIT else [ops]
    return routines, defined, used


def _distinct(xs: list[int]) -> bool:
    for i in range(len(xs)):
        for j in range(i + 1, len(xs)):
            if xs[i] == xs[j]:
                return False
    return True


def h_closure(i0: int, i1: int, i2: int, i3: int, g0: int, g1: int, g2: int, g3: int, i4: int = 0, g4: int = 1) -> bool:
    """
    pre: 0 <= i0 <= 2 and 0 <= i1 <= 2 and 0 <= i2 <= 2 and 0 <= i3 <= 2 and 0 <= i4 <= 2
    pre: 1 <= g0 <= 3 and 1 <= g1 <= 3 and 1 <= g2 <= 3 and 1 <= g3 <= 3 and 1 <= g4 <= 3
    post: _
    """
    global LAST_DETAIL
    routines, defined, used = build([i0, i1, i2, i3, i4], [g0, g1, g2, g3, g4])
    if not _distinct(defined):
        return verdict(True)  # a label defined twice cannot come out of the visitors (one object per name)
    all_defined = True
    for u in used:
        if u not in defined:
            all_defined = False
    n_in = sum(1 for r in routines for op in r if not isinstance(op, SsbLabel))
    try:
        assert routine_op_offsets_are_ordered(routines)
        lf = LabelFinalizer(strip_last_label(routines))
        out = OpsLabelJumpToRemover(lf.routines, lf.label_offsets).routines
    except SsbCompilerError:
        return verdict(not all_defined)  # rejected exactly when a jump targets an undefined label
    if not all_defined:
        return verdict(False)
    offs = [op.offset for r in out for op in r]
    ok = len(out) == len(routines) and _distinct(offs)
    for r in out:
        for op in r:
            ok = ok and not isinstance(op, SsbLabel) and not isinstance(op, SsbLabelJump)
            if op.op_code.name in OPS_WITH_JUMP_TO_MEM_OFFSET:
                ok = ok and len(op.params) >= 1
                if ok:
                    tgt = op.params[-1]
                    ok = ok and isinstance(tgt, int) and tgt in offs
                    # "target as last parameter": the declared index equals the number of remaining parameters
                    ok = ok and OPS_WITH_JUMP_TO_MEM_OFFSET[op.op_code.name] == len(op.params) - 1
    # a non-alias routine never becomes empty (an empty op list means `alias previous`)
    for rin, rout in zip(routines, out):
        ok = ok and (len(rin) == 0 or len(rout) > 0)
    if NATIVE:
        LAST_DETAIL = {"out": repr(out)}
    return verdict(ok)


OBLIGATIONS_LONG = {"id": "C03.S1b", "module": __name__, "func": "h_closure",
                    "what": "same closure post-condition on 5-element lists (label directly before a removable jump, several "
                            "labels in a row, jumps to labels that end up at the routine end ...)",
                    "cases": long_cases(), "timeout": {"quick": 200, "thorough": 900},
                    "bounds": "5 elements over {op, Jump->label, label, Branch->label} with >=2 labels and >=2 jump ops (240 "
                              "kind sequences, one routine), label ids symbolic in 0..2, offsets with symbolic gaps 0-2",
                    "encodes": ["explorerscript.ssb_converting.compiler.utils.strip_last_label",
                                "explorerscript.ssb_converting.compiler.label_finalizer.LabelFinalizer",
                                "explorerscript.ssb_converting.compiler.label_jump_to_remover.OpsLabelJumpToRemover"]}

OBLIGATIONS = [
    {"id": "C03.S1", "module": __name__, "func": "h_closure",
     "what": "back end on symbolic labelled lists: output offsets pairwise distinct, every jump-carrying op has its target "
             "as last parameter (index = OPS_WITH_JUMP_TO_MEM_OFFSET) and the target is an offset of the output, no "
             "label / label-jump pseudo op remains, non-alias routines stay non-empty, undefined label <=> "
             "SsbCompilerError",
     "cases": {"quick": cases(3), "thorough": cases(4)},
     "timeout": {"quick": 120, "thorough": 600},
     "bounds": {"quick": "3 elements from {op, ctx op, Return, label, Jump->label, Branch->label} (all 216 kind sequences x "
                         "1-2 routines by case split), label ids symbolic in 0..2, offsets with symbolic gaps 0-2",
                "thorough": "4 elements (1296 kind sequences x 1-2 routines)"},
     "encodes": ["explorerscript.ssb_converting.compiler.utils.strip_last_label",
                 "explorerscript.ssb_converting.compiler.utils.routine_op_offsets_are_ordered",
                 "explorerscript.ssb_converting.compiler.label_finalizer.LabelFinalizer",
                 "explorerscript.ssb_converting.compiler.label_jump_to_remover.OpsLabelJumpToRemover"]},
    OBLIGATIONS_LONG,
]
