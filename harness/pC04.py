"""C04 model validation: the token-class predicates of spec/tokens.py against the real ANTLR lexer
(every string over a 9-character alphabet up to a length bound) and the JSON-free public-API replay helper."""
from __future__ import annotations

import itertools
import multiprocessing as mp
import time
from typing import Any

ALPHABET = ['"', "'", "\\", "\n", "a", " ", "0", ".", "-"]


def _real_single_token(text: str) -> str | None:
    """name of the token type if the real lexer turns `text` into exactly one token (then EOF), else None"""
    from antlr4 import InputStream, Token
    from explorerscript.antlr.ExplorerScriptLexer import ExplorerScriptLexer

    lx = ExplorerScriptLexer(InputStream(text))
    lx.removeErrorListeners()
    toks = []
    while True:
        t = lx.nextToken()
        if t.type == Token.EOF:
            break
        toks.append(t)
        if len(toks) > 1:
            return None
    if len(toks) != 1 or toks[0].text != text:
        return None
    ty = toks[0].type
    for nm in ("STRING_LITERAL", "MULTILINE_STRING_LITERAL", "DECIMAL", "INTEGER"):
        if getattr(ExplorerScriptLexer, nm) == ty:
            return nm
    return f"T{ty}"


def _chunk(args: tuple[int, int]) -> list[str]:
    from spec.tokens import is_string_literal, is_multiline_string_literal, is_decimal, is_integer

    first, n = args
    bad = []
    for rest in itertools.product(ALPHABET, repeat=n - 1):
        s = ALPHABET[first] + "".join(rest)
        real = _real_single_token(s)
        mine = {"STRING_LITERAL": is_string_literal(s), "MULTILINE_STRING_LITERAL": is_multiline_string_literal(s),
                "DECIMAL": is_decimal(s), "INTEGER": is_integer(s)}
        for k, v in mine.items():
            if v != (real == k):
                # the lexer prefers the longest match; '""' + '"..' overlaps are the only legitimate differences:
                bad.append(f"{s!r}: predicate {k}={v}, lexer says {real}")
    return bad


def validate_tokens(tier: str, seed: int, known: list[dict[str, Any]]) -> dict[str, Any]:
    t0 = time.time()
    maxlen = 5 if tier == "quick" else 6
    jobs = [(f, n) for n in range(1, maxlen + 1) for f in range(len(ALPHABET))]
    bad: list[str] = []
    with mp.Pool(16) as pool:
        for b in pool.imap_unordered(_chunk, jobs):
            bad.extend(b)
    total = sum(len(ALPHABET) ** n for n in range(1, maxlen + 1))
    res: dict[str, Any] = {"engine": "V", "id": "C04.tokens", "violations": [], "harness_errors": [], "inconclusive": [],
                           "known_hits": [], "samples": [{"model_validation": "token predicates vs real lexer",
                                                          "strings": total, "disagreements": len(bad)}],
                           "obligations": 0, "discharged": 0, "distinct_nontrivial": 0,
                           "model_validation_strings": total,
                           "headline": f"token predicates agree with the real lexer on {total - len(bad)}/{total} strings "
                                       f"(alphabet {len(ALPHABET)} chars, length <= {maxlen}), {round(time.time() - t0, 1)}s"}
    for b in bad[:5]:
        res["harness_errors"].append({"ob": "C04.tokens", "what": "token predicate disagrees with the real lexer: " + b})
    return res
