"""C10 solver-decided parts: back-end totality (shared harness with C03), exception funnel of compile(),
totality of the attribute parser and of the literal readers on every token text."""
from __future__ import annotations

from typing import Any

from explorerscript.error import SsbCompilerError, ParseError
from vlib.hx import verdict, CASE, NATIVE
from harness import hC03
from spec.tokens import is_decimal, is_integer

LAST_DETAIL: Any = None
_c = CASE or 0
from vlib.hx import tb
TLEN = tb(3, 4)
EXC = [SsbCompilerError, ValueError, AssertionError, ParseError]


def _mk(k: int) -> BaseException:
    if k == 3:
        return ParseError({"line": 1, "column": 2, "msg": "m", "offendingSymbol": None, "e": None})  # type: ignore
    return EXC[k]("forced")


class _PreParsed:
    _tree: Any = None
    _parser: Any = None

    def __init__(self, src: str) -> None:
        if _PreParsed._tree is None:
            from explorerscript.explorerscript_reader import ExplorerScriptReader

            r = ExplorerScriptReader("def 0 { a(); }")
            _PreParsed._tree = r.read()
            _PreParsed._parser = r.get_parser()

    def read(self) -> Any:
        return _PreParsed._tree

    def get_parser(self) -> Any:
        return _PreParsed._parser


_PreParsed("")  # parse at import time (not traced)


def h_funnel(k0: int, k1: int, k2: int, depth: int) -> bool:
    """
    pre: 0 <= k0 < 4 and 0 <= k1 < 4 and 0 <= k2 < 4 and 1 <= depth <= 3
    post: _
    """
    # the routine visitor raises a chain of exceptions (handlers unwinding the visitor stack raise while another
    # exception is being handled): compile() must let only ParseError, SsbCompilerError or ValueError out
    import explorerscript.ssb_converting.ssb_compiler as C

    ks = [k0, k1, k2]
    chain: list[BaseException] = []
    for i in range(3):
        for k in range(4):
            if ks[i] == k and i < depth:
                chain.append(_mk(k))

    class V:
        def __init__(self, *a: Any, **kw: Any) -> None:
            pass

        def visit(self, tree: Any) -> None:
            def lvl(i: int) -> None:
                if i == len(chain) - 1:
                    raise chain[i]
                try:
                    lvl(i + 1)
                finally:
                    pass

            # build a __context__ chain: chain[0] raised first, the others while handling it
            try:
                raise chain[0]
            except BaseException:
                if len(chain) == 1:
                    raise
                try:
                    raise chain[1]
                except BaseException:
                    if len(chain) == 2:
                        raise
                    raise chain[2]

    orig = C.RoutineVisitor
    orig_reader = C.ExplorerScriptReader
    C.RoutineVisitor = V  # type: ignore
    C.ExplorerScriptReader = _PreParsed  # type: ignore  # the (concrete) parse is done once, outside the symbolic run
    try:
        comp = C.ExplorerScriptSsbCompiler("$P")
        try:
            comp.compile("def 0 { a(); }", "/x/y.exps")
        except (ParseError, SsbCompilerError, ValueError):
            return verdict(comp.routine_ops is None)  # documented type, and no output
        except Exception:
            return verdict(False)
    finally:
        C.RoutineVisitor = orig  # type: ignore
        C.ExplorerScriptReader = orig_reader  # type: ignore
    return verdict(False)  # the visitor raised: compile() must not succeed


def h_meta(text: str) -> bool:
    """
    pre: len(text) <= 5
    post: _
    """
    # the attribute parser runs on every input text before anything else: it must answer for every text
    from explorerscript.ssb_converting.compiler.meta_attributes import parse_exps_meta_attributes

    r = parse_exps_meta_attributes(text)
    return verdict(isinstance(r, dict))


def h_meta_marker(a: str, b: str) -> bool:
    """
    pre: len(a) <= 1 and len(b) <= 1
    post: _
    """
    from explorerscript.ssb_converting.compiler.meta_attributes import parse_exps_meta_attributes

    r = parse_exps_meta_attributes("//?:" + a + "\n//?: " + b)
    return verdict(isinstance(r, dict))


def h_decimal_reader(t: str) -> bool:
    """
    pre: len(t) <= TLEN and is_decimal(t)
    post: _
    """
    # every DECIMAL token text: the fixed-point reader and the position-mark reader raise only documented types
    from explorerscript.ssb_converting.ssb_data_types import SsbOpParamFixedPoint
    from explorerscript.common_syntax import parse_position_marker_arg
    from harness.hC04 import _ArgCtx

    try:
        SsbOpParamFixedPoint.from_str(t)
    except ValueError:
        pass
    try:
        parse_position_marker_arg(_ArgCtx(t))  # type: ignore
    except (SsbCompilerError, ValueError):
        pass
    return verdict(True)


OBLIGATIONS = [
    {"id": "C10.S1", "module": "harness.hC03", "func": "h_closure",
     "what": "back-end totality: the tail of compile() on every labelled list (label-only routines, undefined labels, "
             "labels at routine ends) raises nothing but SsbCompilerError (shared harness with C03.S1: any other "
             "exception refutes it)",
     "cases": {"quick": hC03.cases(3), "thorough": hC03.cases(4)},
     "timeout": {"quick": 120, "thorough": 600},
     "bounds": {"quick": "3 elements, all kind sequences, 1-2 routines", "thorough": "4 elements"},
     "encodes": ["explorerscript.ssb_converting.compiler.utils.strip_last_label",
                 "explorerscript.ssb_converting.compiler.label_finalizer.LabelFinalizer",
                 "explorerscript.ssb_converting.compiler.label_jump_to_remover.OpsLabelJumpToRemover"]},
    {"id": "C10.S3", "module": __name__, "func": "h_funnel",
     "what": "exception funnel of compile(): whatever chain of exceptions (depth 1-3, 8 types each, symbolic) the routine "
             "visitor raises, only ParseError / SsbCompilerError / ValueError leave compile() and no output is set",
     "timeout": {"quick": 200, "thorough": 600},
     "bounds": "__context__ chains of depth 1-3 over the exception types the handlers raise on purpose "
               "{SsbCompilerError, ValueError, AssertionError, ParseError}; other types (TypeError, KeyError, ...) pass "
               "through the funnel unchanged and are not claimed - no real input producing one was found by C10.E4",
     "encodes": ["explorerscript.ssb_converting.ssb_compiler.ExplorerScriptSsbCompiler.compile"],
     "stubs": ["RoutineVisitor replaced by a stub raising the chosen chain; ExplorerScriptReader returns a tree parsed "
               "once outside the symbolic run"]},
    {"id": "C10.S4", "module": __name__, "func": "h_meta",
     "what": "parse_exps_meta_attributes answers (never raises) for every text",
     "timeout": {"quick": 240, "thorough": 900}, "bounds": "|text| <= 5",
     "encodes": ["explorerscript.ssb_converting.compiler.meta_attributes.parse_exps_meta_attributes"]},
    {"id": "C10.S4b", "module": __name__, "func": "h_meta_marker",
     "what": "same for texts made of attribute lines only (`//?:a` LF `//?: b`)",
     "timeout": {"quick": 240, "thorough": 900}, "bounds": "|a|,|b| <= 1",
     "encodes": ["explorerscript.ssb_converting.compiler.meta_attributes.parse_exps_meta_attributes"]},
    {"id": "C10.S5", "module": __name__, "func": "h_decimal_reader",
     "what": "for every DECIMAL token text the fixed-point reader raises at most ValueError and the position-mark "
             "argument reader at most SsbCompilerError/ValueError",
     "timeout": {"quick": 240, "thorough": 1800}, "bounds": {"quick": "|t| <= 3 (token predicate is_decimal)", "thorough": "|t| <= 4"},
     "encodes": ["explorerscript.ssb_converting.ssb_data_types.SsbOpParamFixedPoint.from_str",
                 "explorerscript.common_syntax.parse_position_marker_arg"]},
]
