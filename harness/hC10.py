"""C10 solver-decided parts: back-end totality (shared harness with C03), exception funnel of compile(),
totality of the attribute parser and of the literal readers on every token text."""
from __future__ import annotations

from typing import Any

from explorerscript.error import SsbCompilerError, ParseError
from vlib.hx import verdict, CASE, NATIVE
from harness import hC03
from spec.tokens import is_decimal, is_integer

LAST_DETAIL: Any = None
_c = CASE or 0
from vlib.hx import tb
TLEN = tb(3, 4)
EXC = [SsbCompilerError, ValueError, AssertionError, ParseError]


def _mk(k: int) -> BaseException:
    if k == 3:
        return ParseError({"line": 1, "column": 2, "msg": "m", "offendingSymbol": None, "e": None})  # type: ignore
    return EXC[k]("forced")


class _PreParsed:
    _tree: Any = None
    _parser: Any = None

    def __init__(self, src: str) -> None:
        if _PreParsed._tree is None:
            from explorerscript.explorerscript_reader import ExplorerScriptReader

            r = ExplorerScriptReader("def 0 { a(); }")
            _PreParsed._tree = r.read()
            _PreParsed._parser = r.get_parser()

    def read(self) -> Any:
        return _PreParsed._tree

    def get_parser(self) -> Any:
        return _PreParsed._parser


_PreParsed("")  # parse at import time (not traced)


def h_funnel(k0: int, k1: int, k2: int, depth: int) -> bool:
    """
    pre: 0 <= k0 < 4 and 0 <= k1 < 4 and 0 <= k2 < 4 and 1 <= depth <= 3
    post: _
    """
    # the routine visitor raises a chain of exceptions (handlers unwinding the visitor stack raise while another
    # exception is being handled): compile() must let only ParseError, SsbCompilerError or ValueError out
    import explorerscript.ssb_converting.ssb_compiler as C

    ks = [k0, k1, k2]
    chain: list[BaseException] = []
    for i in range(3):
        for k in range(4):
            if ks[i] == k and i < depth:
                chain.append(_mk(k))

    class V:
        def __init__(self, *a: Any, **kw: Any) -> None:
            pass

        def visit(self, tree: Any) -> None:
            def lvl(i: int) -> None:
                if i == len(chain) - 1:
                    raise chain[i]
                try:
                    lvl(i + 1)
                finally:
                    pass

            # build a __context__ chain: chain[0] raised first, the others while handling it
            try:
                raise chain[0]
            except BaseException:
                if len(chain) == 1:
                    raise
                try:
                    raise chain[1]
                except BaseException:
                    if len(chain) == 2:
                        raise
                    raise chain[2]

    orig = C.RoutineVisitor
    orig_reader = C.ExplorerScriptReader
    C.RoutineVisitor = V  # type: ignore
    C.ExplorerScriptReader = _PreParsed  # type: ignore  # the (concrete) parse is done once, outside the symbolic run
    try:
        comp = C.ExplorerScriptSsbCompiler("$P")
        try:
            comp.compile("def 0 { a(); }", "/x/y.exps")
        except (ParseError, SsbCompilerError, ValueError):
            return verdict(comp.routine_ops is None)  # documented type, and no output
        except Exception:
            return verdict(False)
    finally:
        C.RoutineVisitor = orig  # type: ignore
        C.ExplorerScriptReader = orig_reader  # type: ignore
    return verdict(False)  # the visitor raised: compile() must not succeed


def h_meta(text: str) -> bool:
    """
    pre: len(text) <= 5
    post: _
    """
    # the attribute parser runs on every input text before anything else: it must answer for every text
    from explorerscript.ssb_converting.compiler.meta_attributes import parse_exps_meta_attributes

    r = parse_exps_meta_attributes(text)
    return verdict(isinstance(r, dict))


def h_meta_marker(a: str, b: str) -> bool:
    """
    pre: len(a) <= 1 and len(b) <= 1
    post: _
    """
    from explorerscript.ssb_converting.compiler.meta_attributes import parse_exps_meta_attributes

    r = parse_exps_meta_attributes("//?:" + a + "\n//?: " + b)
    return verdict(isinstance(r, dict))


def h_decimal_reader(t: str) -> bool:
    """
    pre: len(t) <= TLEN and is_decimal(t)
    post: _
    """
    # every DECIMAL token text: the fixed-point reader and the position-mark reader raise only documented types
    from explorerscript.ssb_converting.ssb_data_types import SsbOpParamFixedPoint
    from explorerscript.common_syntax import parse_position_marker_arg
    from harness.hC04 import _ArgCtx

    try:
        SsbOpParamFixedPoint.from_str(t)
    except ValueError:
        pass
    try:
        parse_position_marker_arg(_ArgCtx(t))  # type: ignore
    except (SsbCompilerError, ValueError):
        pass
    return verdict(True)


class _Tk:
    def __init__(self, line: int = 1, column: int = 0):
        self.line, self.column = line, column


class _LoopCtx:
    """stand-in for While_block / For_block / Forever_block / Single_case_block / Default contexts"""

    def __init__(self, neg: bool):
        self._neg = neg
        self.start = _Tk()

    def NOT(self) -> Any:
        return _Tk() if self._neg else None


def h_stacks_balanced(kind: int, neg: bool, body_kind: int) -> bool:
    """
    pre: 0 <= kind <= 4 and 0 <= body_kind <= 2
    post: _
    """
    # collecting a loop or case handler leaves the loop / case stacks of the shared compiler context as it found
    # them - otherwise a later stray continue / break_loop / break would be accepted
    from explorerscript.ssb_converting.compiler.utils import CompilerCtx, Counter, SsbLabelJumpBlueprint
    from explorerscript.source_map import SourceMapBuilder
    from explorerscript.ssb_converting.compiler.compile_handlers.blocks.loop.while_block import WhileBlockCompileHandler
    from explorerscript.ssb_converting.compiler.compile_handlers.blocks.loop.for_block import ForBlockCompileHandler
    from explorerscript.ssb_converting.compiler.compile_handlers.blocks.loop.forever_block import ForeverBlockCompileHandler
    from explorerscript.ssb_converting.compiler.compile_handlers.blocks.switches.case_block import CaseBlockCompileHandler
    from explorerscript.ssb_converting.compiler.compile_handlers.blocks.switches.default_case_block import DefaultCaseBlockCompileHandler
    from explorerscript.ssb_converting.compiler.compile_handlers.abstract import AbstractComplexStatementCompileHandler
    from explorerscript.ssb_converting.ssb_data_types import SsbOperation, SsbOpCode
    from explorerscript.ssb_converting.ssb_special_ops import SsbLabel

    ctx = CompilerCtx(Counter(), SourceMapBuilder(), {}, Counter(), "$P", {})

    class Body(AbstractComplexStatementCompileHandler):  # type: ignore
        def __init__(self, k: int):
            self.k = k
            self.ctx = _LoopCtx(False)  # type: ignore
            self.compiler_ctx = ctx

        def collect(self) -> list[Any]:
            if self.k == 1:
                return [SsbOperation(ctx.counter_ops(), SsbOpCode(-1, "x"), [])]
            if self.k == 2:
                return [SsbOperation(ctx.counter_ops(), SsbOpCode(-1, "Return"), [])]
            return []

        def add(self, obj: Any) -> None:
            pass

    c = _LoopCtx(neg)
    bp = SsbLabelJumpBlueprint(ctx, c, "BranchDebug", [1])  # type: ignore
    h: Any
    if kind == 0:
        h = WhileBlockCompileHandler(c, ctx)  # type: ignore
        h._branch_blueprint = bp
    elif kind == 1:
        h = ForBlockCompileHandler(c, ctx)  # type: ignore
        h._branch_blueprint = bp
        h._init_statement_handler = Body(1)
        h._end_statement_handler = Body(1)
    elif kind == 2:
        h = ForeverBlockCompileHandler(c, ctx)  # type: ignore
    elif kind == 3:
        h = CaseBlockCompileHandler(c, ctx)  # type: ignore
        h._header_jump_blueprints = [bp]
        h.set_end_label(SsbLabel(99, -1))
    else:
        h = DefaultCaseBlockCompileHandler(c, ctx)  # type: ignore
        h.set_end_label(SsbLabel(99, -1))
    if body_kind > 0:
        h._added_handlers.append(Body(body_kind))
    before = (len(ctx._loops), len(ctx._switch_cases))
    ops = h.collect()
    after = (len(ctx._loops), len(ctx._switch_cases))
    return verdict(before == after == (0, 0) and isinstance(ops, list))


OBLIGATIONS = [
    {"id": "C10.S1", "module": "harness.hC03", "func": "h_closure",
     "what": "back-end totality: the tail of compile() on every labelled list (label-only routines, undefined labels, "
             "labels at routine ends) raises nothing but SsbCompilerError (shared harness with C03.S1: any other "
             "exception refutes it)",
     "cases": {"quick": hC03.cases(3), "thorough": hC03.cases(4)},
     "timeout": {"quick": 120, "thorough": 600},
     "bounds": {"quick": "3 elements, all kind sequences, 1-2 routines", "thorough": "4 elements"},
     "encodes": ["explorerscript.ssb_converting.compiler.utils.strip_last_label",
                 "explorerscript.ssb_converting.compiler.label_finalizer.LabelFinalizer",
                 "explorerscript.ssb_converting.compiler.label_jump_to_remover.OpsLabelJumpToRemover"]},
    {"id": "C10.S3", "module": __name__, "func": "h_funnel",
     "what": "exception funnel of compile(): whatever chain of exceptions (depth 1-3, 8 types each, symbolic) the routine "
             "visitor raises, only ParseError / SsbCompilerError / ValueError leave compile() and no output is set",
     "timeout": {"quick": 200, "thorough": 600},
     "bounds": "__context__ chains of depth 1-3 over the exception types the handlers raise on purpose "
               "{SsbCompilerError, ValueError, AssertionError, ParseError}; other types (TypeError, KeyError, ...) pass "
               "through the funnel unchanged and are not claimed - no real input producing one was found by C10.E4",
     "encodes": ["explorerscript.ssb_converting.ssb_compiler.ExplorerScriptSsbCompiler.compile"],
     "stubs": ["RoutineVisitor replaced by a stub raising the chosen chain; ExplorerScriptReader returns a tree parsed "
               "once outside the symbolic run"]},
    {"id": "C10.S4", "module": __name__, "func": "h_meta",
     "what": "parse_exps_meta_attributes answers (never raises) for every text",
     "timeout": {"quick": 240, "thorough": 900}, "bounds": "|text| <= 5",
     "encodes": ["explorerscript.ssb_converting.compiler.meta_attributes.parse_exps_meta_attributes"]},
    {"id": "C10.S4b", "module": __name__, "func": "h_meta_marker",
     "what": "same for texts made of attribute lines only (`//?:a` LF `//?: b`)",
     "timeout": {"quick": 240, "thorough": 900}, "bounds": "|a|,|b| <= 1",
     "encodes": ["explorerscript.ssb_converting.compiler.meta_attributes.parse_exps_meta_attributes"]},
    {"id": "C10.S5", "module": __name__, "func": "h_decimal_reader",
     "what": "for every DECIMAL token text the fixed-point reader raises at most ValueError and the position-mark "
             "argument reader at most SsbCompilerError/ValueError",
     "timeout": {"quick": 240, "thorough": 1800}, "bounds": {"quick": "|t| <= 3 (token predicate is_decimal)", "thorough": "|t| <= 4"},
     "encodes": ["explorerscript.ssb_converting.ssb_data_types.SsbOpParamFixedPoint.from_str",
                 "explorerscript.common_syntax.parse_position_marker_arg"]},
    {"id": "C10.S2", "module": __name__, "func": "h_stacks_balanced",
     "what": "stack discipline behind the 'outside a loop / outside a case' rejections: collect() of every loop handler "
             "(while, while not, for, forever) and case/default handler leaves CompilerCtx's loop and case stacks empty "
             "again, for empty, plain and flow-ending bodies",
     "timeout": {"quick": 200, "thorough": 600},
     "bounds": "5 handler kinds x negation flag x 3 body kinds, all symbolic",
     "encodes": ["explorerscript.ssb_converting.compiler.compile_handlers.blocks.loop.while_block.WhileBlockCompileHandler.collect",
                 "explorerscript.ssb_converting.compiler.compile_handlers.blocks.loop.for_block.ForBlockCompileHandler.collect",
                 "explorerscript.ssb_converting.compiler.compile_handlers.blocks.loop.forever_block.ForeverBlockCompileHandler.collect",
                 "explorerscript.ssb_converting.compiler.compile_handlers.blocks.switches.case_block.CaseBlockCompileHandler.collect",
                 "explorerscript.ssb_converting.compiler.compile_handlers.blocks.switches.default_case_block.DefaultCaseBlockCompileHandler.collect"],
     "stubs": ["parser contexts replaced by stand-ins (NOT(), start); body statements by stand-in handlers"]},
]
