"""Lemmas on REAL parse trees with symbolic token positions (Engine X) — C08.S1 / C16.S5.

A template program is parsed by the real ANTLR lexer+parser outside the symbolic run (NoTracing). Inside the run the
line/column of the tokens of that real tree are rewritten as if `dl` line breaks and `dc` blanks had been inserted in
front of the k-th token (k, dl, dc symbolic; dl, dc unbounded). The real compile() - visitors, handlers, source map
builder, back end - then runs traced on that tree.
Oracle (no reference to compiler code): the ops are the ops of the unmodified template (layout is not meaning, C16), and
every source-map entry sits on the *same token* as in the unmodified compilation, at that token's new position (C08);
which token that is is checked against the printer-known positions (the C08.E5 oracle) for the template as printed."""
from __future__ import annotations

from typing import Any

from spec import es_ast
from spec.families import C, op
from vlib.hx import verdict, tb, CASE, NATIVE  # noqa: F401

PERF = "$PERFORMANCE_PROGRESS_LIST"


def _templates() -> list[dict[str, Any]]:
    cond_a = ("c_op", C("$A"), ">=", 5, False)
    cond_b = ("c_bit", True, C(PERF), 1)
    cond_c = ("c_scn", C("$S"), "<", 3, 0)
    sw = ("switch", ("h_scn", C("$S"), 1), [(("k_val", 1), [op("a"), ("ctrl", "break")]), (("k_op", ">", 2, False), [op("b")]),
                                            (None, [op("d"), ("ctrl", "break")]), (("k_val", 4), [op("e")])])
    msg = ("msgswitch", "message_SwitchTalk", C("$T"), [(1, ("str", "a")), (2, ("lstr", {"english": "b", "german": "c"})),
                                                         (None, ("str", "d"))])
    progs = [
        {"routines": [("def", 0, [op("x", 1, ("str", "s")), ("assign", C("$V"), 2, "=", 7, False), ("advlog", 3),
                                  ("with", "actor", C("ACTOR_B"), op("inwith", 1)), op("y", ctx=("object", 4)), ("ctrl", "hold")])]},
        {"routines": [("def", 0, [op("pre"), ("if", False, [cond_a, cond_b], [op("t")], [(True, [cond_c], [op("e1")])], [op("e")]),
                                  op("post")])]},
        {"routines": [("def", 0, [op("pre"), sw, op("post"), ("ctrl", "end")])]},
        {"routines": [("def", 0, [("label", "top"), ("while", True, cond_a, [op("w"), ("ctrl", "continue")]),
                                  ("for", ("assign", C("$I"), None, "=", 0, False), ("c_op", C("$I"), "<", 3, False),
                                   ("assign", C("$I"), None, "+=", 1, False), [op("f"), ("ctrl", "break_loop")]),
                                  ("forever", [op("g"), ("jump", "top")])])]},
        {"routines": [("def", 0, [msg, ("call", "l"), op("after"), ("label", "l"), op("fin"), ("ctrl", "return")]),
                      ("coro", "c1", [op("in_coro", ("pos", "m", "3", "4.5")), ("setscn", C("$S"), 1, 2)]),
                      ("for", 2, "actor", C("ACTOR_X"), [("dmode", 3, 1), ("reset", None)], False)]},
        {"macros": [("macro", "n", ["$q"], [op("in_n", C("$q"))]),
                    ("macro", "m", ["$p"], [op("in_m", C("$p")), ("macrocall", "n", [C("$p")]),
                                             ("if", False, [("c_neg", False, "debug")], [("ctrl", "return")], [], None),
                                             op("m_end")])],
         "routines": [("def", 0, [op("before"), ("macrocall", "m", [5]), op("between"), ("macrocall", "m", [C("K")])])]},
    ]
    return progs


def _sampled(n: int) -> list[dict[str, Any]]:
    """thorough tier: additional templates sampled (deterministically) from the Engine-T families, those the compiler accepts
    and that are small enough for one slice"""
    from spec.families import programs

    out = []
    progs = [p for nm, p in programs("quick", 1) if not nm.startswith("F1.simple.all")]
    step = max(1, len(progs) // (3 * n))
    for p in progs[::step]:
        text = es_ast.to_text(p)
        if len(text) > 700:
            continue
        try:
            from harness.pC01 import compile_text

            compile_text(text)
        except Exception:  # noqa
            continue
        out.append(p)
        if len(out) >= n:
            break
    return out


N_BASE = 6
N_SAMPLED = 30
PROGRAMS = _templates()
if CASE is not None and CASE >= N_BASE:
    PROGRAMS = PROGRAMS + _sampled(N_SAMPLED)
TEMPLATES = [es_ast.to_text(p) for p in PROGRAMS]


class Parsed:
    """stands in for ExplorerScriptReader: hands out the tree prepared by the harness"""
    current: Any = None

    def __init__(self, src: str) -> None:
        pass

    def read(self) -> Any:
        return Parsed.current[0]

    def get_parser(self) -> Any:
        return Parsed.current[1]


def parse(text: str) -> Any:
    from crosshair.tracers import NoTracing
    from explorerscript.explorerscript_reader import ExplorerScriptReader

    with NoTracing():
        r = ExplorerScriptReader(text)  # a fresh tree per path: the harness rewrites its tokens
        tree = r.read()
        return tree, r.get_parser()


def tokens_of(tree: Any) -> list[Any]:
    out = []
    todo = [tree]
    while todo:
        n = todo.pop()
        if hasattr(n, "symbol"):
            out.append(n.symbol)
        else:
            todo.extend(reversed(list(n.getChildren())))
    return out


def compile_tree(text: str, tree_and_parser: Any) -> Any:
    import explorerscript.ssb_converting.ssb_compiler as Cm

    orig = Cm.ExplorerScriptReader
    Cm.ExplorerScriptReader = Parsed  # type: ignore
    Parsed.current = tree_and_parser
    try:
        comp = Cm.ExplorerScriptSsbCompiler(PERF)
        comp.compile(text, "/x/y.exps")
        return comp
    finally:
        Cm.ExplorerScriptReader = orig  # type: ignore


def _summary(comp: Any) -> tuple[list[Any], dict[int, tuple[int, int]], list[Any]]:
    from spec.ssb_machine import norm_param

    ops = [[(o.offset, o.op_code.name, [norm_param(p) for p in o.params]) for o in r] for r in comp.routine_ops]
    sm = comp.source_map
    plain = {off: (m.line, m.column) for off, m in sm._mappings.items()}
    macro = [(off, m.line, m.column, m.called_in, m.return_addr) for off, m in sm._mappings_macros.items()]
    return ops, plain, macro


_BASE: dict[int, Any] = {}
LAST_DETAIL = ""


def _base(case: int) -> Any:
    """concrete compilation of the template (outside the symbolic run): ops, and for every source-map entry the index
    of the token it sits on"""
    from crosshair.tracers import NoTracing

    with NoTracing():
        if case not in _BASE:
            text = TEMPLATES[case]
            tp = parse(text)
            toks = tokens_of(tp[0])
            pos = {(t.line - 1, t.column): i for i, t in enumerate(toks)}
            ops, plain, macro = _summary(compile_tree(text, tp))
            tok_plain = {off: pos[lc] for off, lc in plain.items()}
            tok_macro = [(off, pos[(ln, col)], None if ci is None else (ci[0], pos[(ci[1], ci[2])]), ra)
                         for off, ln, col, ci, ra in macro]
            # anchor: at the printed layout the entries are where the printer put the statements (C08.E5 oracle)
            from harness import pC08

            r = pC08.task("F5.template" if PROGRAMS[case].get("macros") else "template", PROGRAMS[case])
            problem = r.get("what") if r.get("status") != "ok" else None
            _BASE[case] = (ops, tok_plain, tok_macro, len(toks), problem)
        return _BASE[case]


def relayout(toks: list[Any], k: int, dl: int, dc: int) -> None:
    """positions as if dl line breaks followed by dc blanks (dl > 0), or dc blanks (dl == 0), were inserted before token k"""
    line_k, col_k = toks[k].line, toks[k].column
    for i in range(k, len(toks)):
        t = toks[i]
        if t.line == line_k:
            t.column = (t.column + dc) if dl == 0 else (t.column - col_k + dc)
        t.line = t.line + dl


def h_layout(k: int, dl: int, dc: int) -> bool:
    """
    pre: 0 <= k and dl >= 0 and dc >= 0
    post: _
    """
    case = CASE if CASE is not None and 0 <= CASE < len(TEMPLATES) else 0
    global LAST_DETAIL
    ops0, tok_plain, tok_macro, ntok, problem = _base(case)
    if problem is not None:
        LAST_DETAIL = problem
        return verdict(False)
    if k >= ntok - 1:  # the last token is EOF
        return True
    text = TEMPLATES[case]
    tp = parse(text)
    toks = tokens_of(tp[0])
    kk = 0
    for i in range(ntok):
        if k == i:
            kk = i
    relayout(toks, kk, dl, dc)
    ops, plain, macro = _summary(compile_tree(text, tp))
    ok = ops == ops0 and len(plain) == len(tok_plain) and len(macro) == len(tok_macro)
    for off, ti in tok_plain.items():
        got = plain.get(off)
        ok = ok and got is not None and got[0] == toks[ti].line - 1 and got[1] == toks[ti].column
    for (off, ti, ci, ra), m in zip(tok_macro, macro):
        ok = ok and m[0] == off and m[1] == toks[ti].line - 1 and m[2] == toks[ti].column and m[4] == ra
        if ci is None:
            ok = ok and m[3] is None
        else:
            ok = ok and m[3] is not None and m[3][0] == ci[0] and m[3][1] == toks[ci[1]].line - 1 and m[3][2] == toks[ci[1]].column
    return verdict(ok)


OBLIGATIONS = [
    {"id": "C08.S1", "module": __name__, "func": "h_layout",
     "what": "real compile() on the real parse tree of a template whose token positions are rewritten symbolically (dl line "
             "breaks and dc blanks inserted before token k): the ops do not change and every plain and macro source-map "
             "entry (line, column, call site) follows the token it was registered on",
     "cases": {"quick": list(range(N_BASE)), "thorough": list(range(N_BASE + N_SAMPLED))}, "timeout": {"quick": 280, "thorough": 900},
     "bounds": "quick: 6 templates; thorough: + 30 programs sampled from families F1-F4 (each anchored the same way). 6 templates (simple statements incl. with/inline ctx; if/elseif/else with || headers; switch with "
               "fall-through and default in the middle; while/for/forever with continue/break_loop/jump; message switch, call, "
               "coroutine, for-actor routine, position mark; macro with a nested macro call and an early return, called twice); k over every token, "
               "dl and dc unbounded non-negative integers",
     "encodes": ["explorerscript.ssb_converting.ssb_compiler.ExplorerScriptSsbCompiler.compile",
                 "explorerscript.ssb_converting.compiler.compiler_visitor.statement_visitor.StatementVisitor",
                 "explorerscript.source_map.SourceMapBuilder.add_opcode",
                 "explorerscript.ssb_converting.compiler.utils.CompilerCtx"],
     "stubs": ["ExplorerScriptReader replaced by a stand-in handing out the real parse tree of the template (lexing and "
               "parsing run untraced); token positions rewritten by the harness"]},
]
