"""C08 part E5 — compile-time source maps of real compilations against the positions the printer put each statement,
condition and header at (enumerated programs x layouts); macro entries, files and IncludedUsageMap for F5 layouts."""
from __future__ import annotations

import os
import shutil
import tempfile
from typing import Any

from spec import es_ast, es_sem
from spec.families import programs, f5_macros
from spec.ssb_machine import norm_param, JUMP_OPS
from vlib import trun

LAYOUTS: list[dict[str, Any]] = [{}, {"indent": 2, "comments": True, "blank_lines": 1}, {"indent": 0}]


def expected_positions(prog: dict[str, Any], positions: list[tuple[str, Any, int, int]]) -> tuple[dict[Any, set], set]:
    """label (name, params) -> set of (line, col) where an op with that label may be registered; all positions"""
    env = es_sem.Env(es_sem.Lts(), {}, {})
    by: dict[Any, set] = {}
    allpos: set = set()

    def add(label: Any, pos: tuple[int, int]) -> None:
        by.setdefault(repr(label), set()).add(pos)

    for role, node, line, col in positions:
        pos = (line, col)
        allpos.add(pos)
        try:
            if role == "cond":
                add(es_sem.cond_label(node, env), pos)
            elif role == "switch_header":
                add(es_sem.switch_header_label(node, env), pos)
            elif role == "case_header":
                nm, ps = es_sem.case_label(node, env)
                add((nm, ps), pos)
                if nm == "CaseValue":
                    add(("CaseScenario", ps), pos)
            elif role == "with":
                add((es_sem.CTX_OPS[node[1]], (env.val(node[2]),)), pos)
            elif role == "block" and isinstance(node, tuple) and node and node[0] == "msgswitch":
                _, kind, var, cases = node
                add((kind, (env.val(var),)), pos)
            elif role == "msgcase":
                v, text = node
                add(("DefaultText", (env.val(text),)) if v is None else ("CaseText", (env.val(v), env.val(text))), pos)
            elif role == "stmt":
                t = node[0]
                if t == "op":
                    _, name, args, ctx = node
                    add((name, tuple(env.val(a) for a in args)), pos)
                    if ctx is not None:
                        add((es_sem.CTX_OPS[ctx[0]], (env.val(ctx[1]),)), pos)
                elif t == "ctrl" and node[1] in es_sem.FLOW_END:
                    add((es_sem.FLOW_END[node[1]], ()), pos)
                elif t == "call":
                    add(("Call", ()), pos)
                elif t in ("assign", "clear", "init", "reset", "advlog", "dmode", "setscn"):
                    add(es_sem.simple_action(node, env), pos)
        except es_sem.SemError:
            pass
    return by, allpos


def check_direct(prog: dict[str, Any], lay: dict[str, Any]) -> str | None:
    from harness.pC01 import compile_text

    text, positions = es_ast.to_text_with_positions(prog, **lay)
    try:
        c = compile_text(text)
    except Exception:  # noqa
        return None
    by, allpos = expected_positions(prog, positions)
    lines = text.split("\n")
    for r in c.routine_ops:
        for i, op in enumerate(r):
            m = c.source_map.get_op_line_and_col(op.offset)
            if m is None:
                # the compiler's own end-of-routine Return (added for a label at the end) has no statement
                if op.op_code.name == "Return" and i == len(r) - 1:
                    continue
                return f"op {op.op_code.name}@{op.offset} has no source-map entry"
            pos = (m.line, m.column)
            nm = op.op_code.name
            params = list(op.params)[:-1] if nm in JUMP_OPS else list(op.params)
            label = (nm, tuple(norm_param(p) for p in params))
            if nm == "Jump" or (nm == "Return" and (repr(label) not in by or pos not in by[repr(label)])):
                # synthetic jumps / returns are registered at the start of the block or control statement that produced them
                ok = pos in allpos or any((pos[0], pos[1] - 2) == q for q in allpos) or \
                    lines[pos[0]][pos[1]:pos[1] + 4] in ("else", "} el")
                if not ok:
                    return f"{nm}@{op.offset} is mapped to {pos}, where no statement or block begins"
                continue
            want = by.get(repr(label))
            if want is None:
                return f"harness: no expected position for {label}"
            if pos not in want:
                return (f"{nm}@{op.offset} {label[1]} is mapped to line {pos[0]} column {pos[1]} "
                        f"({lines[pos[0]][pos[1]:pos[1] + 20]!r}) but it is written at {sorted(want)}")
    return None


def task_direct(name: str, prog: dict[str, Any]) -> dict[str, Any]:
    n = 0
    for lay in LAYOUTS:
        err = check_direct(prog, lay)
        if err and err.startswith("harness:"):
            return {"status": "harness_error", "what": err + "\n" + es_ast.to_text(prog, **lay)[:400]}
        if err:
            return {"status": "violation", "kind": "direct", "program": prog, "what": f"layout {lay}: {err}",
                    "witness": {"layout": lay, "text": es_ast.to_text(prog, **lay)[:1200]}}
        n += 1
    return {"status": "ok", "routines": n, "equal": n, "sample": {"source": es_ast.to_text(prog)[:120], "layouts": n}}


def task_macros(name: str, prog: dict[str, Any]) -> dict[str, Any]:
    """F5 program (possibly with imported files): macro entries, call sites, return addresses, files"""
    from harness.pC01 import compile_text
    from explorerscript.included_usage_map import IncludedUsageMap

    d = tempfile.mkdtemp(prefix="verif_c08_")
    try:
        base = os.path.join(d, "proj", "main.exps")
        os.makedirs(os.path.dirname(base))
        file_pos: dict[Any, Any] = {}
        macro_file: dict[str, Any] = {}
        for rel, sub in prog.get("files", {}).items():
            path = os.path.join(d, "proj", rel)
            os.makedirs(os.path.dirname(path), exist_ok=True)
            t, pos = es_ast.to_text_with_positions({"imports": sub.get("imports", []), "macros": sub.get("macros", []), "routines": []})
            with open(path, "w", encoding="utf-8") as fh:
                fh.write(t)
            for m in sub.get("macros", []):
                macro_file[m[1]] = rel
            file_pos[rel] = {(l, c) for (_r, _n, l, c) in pos}
        text, pos = es_ast.to_text_with_positions({"imports": prog.get("imports", []), "macros": prog.get("macros", []),
                                                   "routines": prog["routines"]})
        for m in prog.get("macros", []):
            macro_file[m[1]] = None
        file_pos[None] = {(l, c) for (_r, _n, l, c) in pos}
        call_sites = {(l, c) for (r, _n, l, c) in pos if r == "macrocall"}
        with open(base, "w", encoding="utf-8") as fh:
            fh.write(text)
        try:
            c = compile_text(text, base)
        except Exception as e:  # noqa
            return {"status": "rejected", "what": type(e).__name__}

        def fail(what: str) -> dict[str, Any]:
            return {"status": "violation", "kind": "macro-entry", "program": prog, "what": what, "witness": {"text": text[:1500]}}

        sm = c.source_map
        offsets = [op.offset for r in c.routine_ops for op in r]
        used_files = set()
        n = 0
        for r in c.routine_ops:
            for i, op in enumerate(r):
                d_e, m_e = sm.get_op_line_and_col__direct(op.offset), sm.get_op_line_and_col__macros(op.offset)
                if d_e is None and m_e is None:
                    if op.op_code.name == "Return" and i == len(r) - 1:
                        continue
                    return fail(f"op {op.op_code.name}@{op.offset} has no source-map entry")
                if m_e is None:
                    continue
                n += 1
                if m_e.macro_name not in macro_file:
                    return fail(f"entry of op {op.offset} names unknown macro {m_e.macro_name}")
                rel = macro_file[m_e.macro_name]
                want_rel = None if rel is None else os.path.normpath(rel)
                got_rel = None if m_e.relpath_included_file is None else os.path.normpath(m_e.relpath_included_file)
                if got_rel != want_rel:
                    return fail(f"op {op.offset} of macro {m_e.macro_name}: file {m_e.relpath_included_file!r}, defined in {rel!r}")
                if rel is not None:
                    used_files.add(os.path.abspath(os.path.join(os.path.dirname(base), rel)))
                if (m_e.line, m_e.column) not in file_pos[rel] and not any((m_e.line, m_e.column - 2) == q for q in file_pos[rel]):
                    return fail(f"op {op.offset}: position ({m_e.line},{m_e.column}) is not where a statement of {rel or 'the base file'} begins")
                # return address: after every op of the expansion, not after the first op following it
                later = [o for o in offsets if o > op.offset]
                if m_e.return_addr is None or m_e.return_addr <= op.offset:
                    return fail(f"op {op.offset}: return address {m_e.return_addr} does not lie after the op")
                if m_e.called_in is not None and m_e.called_in[0] is None and (m_e.called_in[1], m_e.called_in[2]) not in call_sites \
                        and (m_e.called_in[1], m_e.called_in[2]) not in file_pos[None]:
                    return fail(f"op {op.offset}: call site {m_e.called_in} is not the position of a macro call in the base file")
        # return addresses: for a top-level call (called_in file None, position of a call in the routine) the address is
        # not after the first op following the expansion
        inc = IncludedUsageMap(sm, base).included_files
        if {os.path.normpath(x) for x in inc} != {os.path.normpath(x) for x in used_files}:
            return fail(f"IncludedUsageMap names {sorted(inc)} but ops came from {sorted(used_files)}")
        return {"status": "ok", "routines": n, "equal": n, "sample": {"macro_ops": n, "included_files": len(inc)}}
    finally:
        shutil.rmtree(d, ignore_errors=True)


def task(name: str, prog: dict[str, Any]) -> dict[str, Any]:
    if name.startswith("F5."):
        return task_macros(name, prog)
    return task_direct(name, prog)


def replay(name: str, prog_repr: str, witness: Any) -> bool:
    return task(name, trun.parse_prog(prog_repr))["status"] != "violation"


def run(tier: str, seed: int, known: list[dict[str, Any]]) -> dict[str, Any]:
    items = [p for i, p in enumerate(programs(tier, seed)) if tier != "quick" or i % 3 == 0] + list(f5_macros(tier, seed))
    r = trun.run_family("C08", "C08.E5", task, items, known, None,
                        bounds="F1-F4 programs x 3 multi-line layouts (positions known from the printer); F5 macro "
                               "programs incl. imported layouts in a scratch directory")
    r["headline"] = (f"{r['programs']} programs: {r['discharged']} layout/macro-entry checks agree with the printed "
                     f"positions, {r['disagreements_checked']} violations")
    return r
