from explorerscript.ssb_converting.ssb_data_types import repr_string
from explorerscript.ssb_converting.compiler.utils import singleline_string_literal
import os
REACH = os.environ.get("VERIF_REACH") == "1"
def rt(s: str) -> bool:
    """
    pre: len(s) <= 3
    pre: chr(10) not in s
    post: _
    """
    t = repr_string(s)
    r = singleline_string_literal(t)
    if REACH:
        return False
    return s == r
