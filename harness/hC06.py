"""C06 solver-decided parts: fallback exactness (S1), marker (S2), exception funnel (S3)."""
from __future__ import annotations

from typing import Any

from explorerscript.ssb_converting.compiler.meta_attributes import parse_exps_meta_attributes
from explorerscript.ssb_converting.ssb_data_types import (SsbOperation, SsbOpCode, SsbRoutineInfo, SsbRoutineType,
                                                         DungeonModeConstants)
from vlib.hx import verdict, CASE, NATIVE
from harness import hC07

LAST_DETAIL: Any = None


def _fallback_prefix() -> str:
    """the marker text of the real fallback branch: run convert() once with the graph builder forced to trip an
    assertion (what the except-clause is there for) and cut the prefix off the answer"""
    import explorerscript.ssb_converting.ssb_decompiler as D

    class Boom:
        def __init__(self, *a: Any, **k: Any) -> None:
            raise AssertionError("forced")

    orig = D.SsbGraphMinimizer
    D.SsbGraphMinimizer = Boom  # type: ignore
    try:
        ops = [[SsbOperation(0, SsbOpCode(-1, "End"), [])]]
        d = D.ExplorerScriptSsbDecompiler([SsbRoutineInfo(SsbRoutineType.GENERIC, 0)], ops, [], "$P",
                                          DungeonModeConstants("a", "b", "c", "d"))
        text, _sm = d.convert()
    finally:
        D.SsbGraphMinimizer = orig  # type: ignore
    i = text.index("\ndef 0")
    return text[:i]


PREFIX = _fallback_prefix()


def h_marker(body: str) -> bool:
    """
    pre: len(body) <= 3
    post: _
    """
    attrs = parse_exps_meta_attributes(PREFIX + body)
    return verdict(attrs.get("is-ssb-script") == "true")


class _Rec:
    calls: list[str] = []


def h_dispatch(body: str) -> bool:
    """
    pre: len(body) <= 4
    post: _
    """
    # any text whose first line is the marker is handed to the SsbScript compiler, whatever follows
    import explorerscript.ssb_converting.ssb_compiler as C

    seen: list[Any] = []

    class Stub:
        routine_infos: Any = ["ri"]
        routine_ops: Any = ["ro"]
        named_coroutines: Any = ["nc"]
        source_map: Any = "sm"

        def compile(self, src: str) -> None:
            seen.append(src)

    orig = C.SsbScriptSsbCompiler
    C.SsbScriptSsbCompiler = Stub  # type: ignore
    try:
        c = C.ExplorerScriptSsbCompiler("$P")
        src = "//?: is-ssb-script: true\n" + body
        c.compile(src, "/x/y.exps")
    finally:
        C.SsbScriptSsbCompiler = orig  # type: ignore
    return verdict(len(seen) == 1 and c.routine_ops == ["ro"] and c.routine_infos == ["ri"] and c.source_map == "sm")


EXC = [AssertionError, ValueError, TypeError, KeyError, IndexError, StopIteration, AttributeError, RecursionError]
WHERE = (CASE or 0) % 3   # 0: graph construction, 1: a structuring pass, 2: the writer


def h_funnel(which: int, coro: bool = False) -> bool:
    """
    pre: 0 <= which < 8
    post: _
    """
    # convert() must return (text starting with the marker, source map) whatever the structuring code raises
    import explorerscript.ssb_converting.ssb_decompiler as D

    exc: Any = AssertionError
    for k in range(8):
        if which == k:
            exc = EXC[k]

    class G:
        def __init__(self, *a: Any, **k: Any) -> None:
            if WHERE == 0:
                raise exc("forced")

        def optimize_paths(self) -> None:
            if WHERE == 1:
                raise exc("forced")

        def __getattr__(self, name: str) -> Any:
            return lambda *a, **k: None

        def get_graphs(self) -> list[Any]:
            return [None]

    class W:
        def __init__(self, *a: Any, **k: Any) -> None:
            pass

        def write_content(self) -> None:
            raise exc("forced")

    og, ow = D.SsbGraphMinimizer, D.RoutineWriteHandler
    D.SsbGraphMinimizer, D.RoutineWriteHandler = G, W  # type: ignore
    try:
        ops = [[SsbOperation(0, SsbOpCode(-1, "foo"), [1]), SsbOperation(1, SsbOpCode(-1, "End"), [])]]
        from explorerscript.ssb_converting.ssb_data_types import SsbCoroutine

        kind = SsbRoutineType.COROUTINE if coro else SsbRoutineType.GENERIC
        d = D.ExplorerScriptSsbDecompiler([SsbRoutineInfo(kind, 0)], ops, [SsbCoroutine(0, "CORO_X")] if coro else [], "$P",
                                          DungeonModeConstants("a", "b", "c", "d"))
        text, sm = d.convert()
        if coro and "coro CORO_X" not in text:
            return verdict(False)
    finally:
        D.SsbGraphMinimizer, D.RoutineWriteHandler = og, ow  # type: ignore
    return verdict(text.startswith("//?: is-ssb-script: true\n") and sm is not None and "foo(1);" in text)


def h_fallback_exact2(g0: int, g1: int, t0: int, t1: int) -> bool:
    """
    pre: 1 <= g0 <= 3 and 1 <= g1 <= 3 and 0 <= t0 < 2 and 0 <= t1 < 2
    post: _
    """
    # the fallback answer = PREFIX + SsbScript; compiled by the ExplorerScript compiler's marker dispatch
    return verdict(hC07._run(2, [g0, g1], [t0, t1], [], PREFIX + "\n", es_compiler=True))


OBLIGATIONS = [
    {"id": "C06.S1", "module": __name__, "func": "h_fallback_exact2",
     "what": "fallback exactness: prefix + SsbScript of a symbolic routine set, compiled by the real ExplorerScript "
             "compiler (marker dispatch), reproduces opcodes, parameters and jump targets",
     "cases": {"quick": [c for c in hC07.cases("quick") if c % 5 in (0, 1, 4)], "thorough": hC07.cases("thorough")},
     "timeout": {"quick": 200, "thorough": 600},
     "bounds": "2 ops, kinds from {plain, Jump, Branch, Call, CaseValue, unknown, parameterless} (case split), offsets with "
               "symbolic gaps, symbolic targets; quick: layouts one routine / split / two named coroutines",
     "encodes": hC07._ENC + ["explorerscript.ssb_converting.ssb_compiler.ExplorerScriptSsbCompiler.compile",
                             "explorerscript.ssb_converting.compiler.meta_attributes.parse_exps_meta_attributes"],
     "stubs": ["compile stage (ANTLR) untraced on concrete text"]},
    {"id": "C06.S2", "module": __name__, "func": "h_marker",
     "what": "for every body, the fallback prefix read by parse_exps_meta_attributes yields is-ssb-script = true",
     "timeout": {"quick": 200, "thorough": 900}, "bounds": "|body| <= 3, prefix taken from the real fallback branch",
     "encodes": ["explorerscript.ssb_converting.compiler.meta_attributes.parse_exps_meta_attributes",
                 "explorerscript.ssb_converting.ssb_decompiler.ExplorerScriptSsbDecompiler.convert"]},
    {"id": "C06.S2b", "module": __name__, "func": "h_dispatch",
     "what": "compile() of any text whose first line is the marker dispatches to the SsbScript compiler and adopts its result",
     "timeout": {"quick": 200, "thorough": 900}, "bounds": "|body| <= 4",
     "encodes": ["explorerscript.ssb_converting.ssb_compiler.ExplorerScriptSsbCompiler.compile"],
     "stubs": ["SsbScriptSsbCompiler replaced by a recording stub"]},
    {"id": "C06.S3", "module": __name__, "func": "h_funnel",
     "what": "exception funnel: whatever exception type the structuring code raises (graph construction, a pass, the "
             "writer), convert() returns the marked SsbScript fallback and a source map",
     "cases": [0, 1, 2],
     "timeout": {"quick": 200, "thorough": 600},
     "bounds": "8 exception types (symbolic choice) x generic / named-coroutine routine (symbolic) x 3 raising sites (case split)",
     "encodes": ["explorerscript.ssb_converting.ssb_decompiler.ExplorerScriptSsbDecompiler.convert"],
     "stubs": ["SsbGraphMinimizer / RoutineWriteHandler replaced by stubs that raise the chosen exception"]},
]
