"""C08 solver-decided parts: macro expansion entries (real ExplorerScriptMacro.build / _build_op / SourceMapBuilder)
with symbolic counter state and call position; position marks recorded by the argument-list handler."""
from __future__ import annotations

from typing import Any

from explorerscript.source_map import SourceMapBuilder, MacroSourceMapping
from explorerscript.ssb_converting.compiler.utils import Counter, CompilerCtx
from explorerscript.ssb_converting.ssb_data_types import SsbOpParamConstant, SsbOpParamPositionMarker
from explorerscript.ssb_converting.ssb_special_ops import SsbLabel, SsbLabelJump
from vlib.hx import verdict, CASE, NATIVE

LAST_DETAIL: Any = None
_c = CASE or 0

MACRO_SRC = """macro inner($a) {
    i1($a);
    if (debug) {
        return;
    }
    @again;
    i2();
    jump @again;
}
macro outer($x, $y) {
    o1($x);
    ~inner($y);
    o2();
    ~inner(5);
}
macro flat() {
    f1();
}
"""


def _macros() -> dict[str, Any]:
    from explorerscript.ssb_converting.ssb_compiler import ExplorerScriptSsbCompiler

    c = ExplorerScriptSsbCompiler("$P")
    c.compile(MACRO_SRC + "def 0 { end; }", "/base/main.exps")
    return c.macros


MACROS = _macros()  # built once by the real MacroVisitor (concrete), outside the symbolic run
WHICH = ["flat", "inner", "outer"][_c % 3]


def h_macro_build(c0: int, l0: int, cl: int, cc: int) -> bool:
    """
    pre: 0 <= c0 <= 8 and 0 <= l0 <= 3 and 0 <= cl and 0 <= cc
    post: _
    """
    m = MACROS[WHICH]
    ops_counter = Counter()
    ops_counter.count = c0
    lbl_counter = Counter()
    lbl_counter.count = l0
    smb = SourceMapBuilder()
    params: dict[str, Any] = {v: SsbOpParamConstant(f"ARG_{i}") for i, v in enumerate(m.variables)}
    smb.next_macro_opcode_called_in(None, cl, cc)   # what MacroCallCompileHandler.collect does
    out = m.build(ops_counter, lbl_counter, params, smb)
    sm = smb.build()
    real = [op for op in out if not isinstance(op, SsbLabel)]
    n = len(real)
    ok = n == len([b for b in m.blueprints if not isinstance(b, SsbLabel)])
    # (iv) offsets are c0+1 .. c0+n in list order
    for i, op in enumerate(real):
        ok = ok and op.offset == c0 + 1 + i
    # (i) every emitted op has a macro entry naming the defining macro (nested ops keep the inner macro) at a
    #     position recorded when the blueprint was compiled; same-file macros -> file None
    first_seen = False
    for i, op in enumerate(real):
        e = sm.get_op_line_and_col__macros(op.offset)
        ok = ok and e is not None and sm.get_op_line_and_col__direct(op.offset) is None
        if e is None:
            return verdict(False)
        ok = ok and e.relpath_included_file is None and e.macro_name in ("flat", "inner", "outer")
        # (iii) the return address lies after every op of its expansion and not after the first op following it
        ok = ok and e.return_addr is not None and e.return_addr > op.offset and e.return_addr <= c0 + n + 1
        # (ii) called_in: the outer call position on the very first op; nested expansions relay theirs
        if i == 0:
            ok = ok and e.called_in is not None and e.called_in[0] is None and e.called_in[1] == cl and e.called_in[2] == cc
        elif e.called_in is not None:
            ok = ok and WHICH == "outer" and e.macro_name == "inner"
    if WHICH == "outer":
        # ops of the whole expansion return to c0+n+1; the nested expansions return to the op after them
        names = [sm.get_op_line_and_col__macros(op.offset).macro_name for op in real]  # type: ignore
        rets = [sm.get_op_line_and_col__macros(op.offset).return_addr for op in real]  # type: ignore
        for i in range(n):
            if names[i] == "outer":
                ok = ok and rets[i] == c0 + n + 1
            else:
                # first op after this run of inner ops
                j = i
                while j < n and names[j] == "inner" and rets[j] == rets[i]:
                    j += 1
                ok = ok and rets[i] == c0 + 1 + j
        # parameter mapping of nested entries has the outer arguments substituted
        pm = [dict(sm.get_op_line_and_col__macros(op.offset).parameter_mapping) for op in real]  # type: ignore
        ok = ok and pm[0] == {"$x": "ARG_0", "$y": "ARG_1"} and pm[1] == {"$a": "ARG_1"}
    else:
        rets2 = [sm.get_op_line_and_col__macros(op.offset).return_addr for op in real]  # type: ignore
        ok = ok and all(r == c0 + n + 1 for r in rets2)
    # jumps of the expansion target labels of the same expansion
    labels = [op for op in out if isinstance(op, SsbLabel)]
    for op in out:
        if isinstance(op, SsbLabelJump):
            ok = ok and any(op.label is lab for lab in labels)
    return verdict(ok)


def h_two_builds_private(c0: int) -> bool:
    """
    pre: 0 <= c0 <= 50
    post: _
    """
    # two expansions share no label object / id and the blueprint is not consumed
    m = MACROS["inner"]
    oc, lc, smb = Counter(), Counter(), SourceMapBuilder()
    oc.count = c0
    a = m.build(oc, lc, {"$a": 1}, smb)
    b = m.build(oc, lc, {"$a": SsbOpParamConstant("K")}, smb)
    la = [op for op in a if isinstance(op, SsbLabel)]
    lb = [op for op in b if isinstance(op, SsbLabel)]
    ok = len(a) == len(b) and all(x is not y and x.id != y.id for x in la for y in lb)
    ra = [op for op in a if not isinstance(op, SsbLabel)]
    rb = [op for op in b if not isinstance(op, SsbLabel)]
    ok = ok and ra[0].params == [1] and rb[0].params == [SsbOpParamConstant("K")]
    ok = ok and [op.offset for op in ra + rb] == list(range(c0 + 1, c0 + 1 + len(ra) + len(rb)))
    return verdict(ok)


class _Tok:
    def __init__(self, line: Any, column: Any):
        self.line, self.column = line, column


class _ArglistCtx:
    def __init__(self, l0: Any, c0: Any, l1: Any, c1: Any):
        self.start, self.stop = _Tok(l0, c0), _Tok(l1, c1)


def h_arglist_marks(l0: int, c0: int, l1: int, c1: int, xo: int, yo: int, xr: int, yr: int, name: str, k: int) -> bool:
    """
    pre: 1 <= l0 and 1 <= l1 and len(name) <= 2 and 0 <= k <= 2
    post: _
    """
    from explorerscript.ssb_converting.compiler.compile_handlers.operations.arg_list import ArgListCompileHandler
    from explorerscript.ssb_converting.compiler.compile_handlers.operations.arg import ArgCompileHandler

    class A(ArgCompileHandler):
        def __init__(self, v: Any):
            self._v = v

        def collect(self) -> Any:
            return self._v

    smb = SourceMapBuilder()
    ctx = CompilerCtx(Counter(), smb, {}, Counter(), "$P", {})
    h = ArgListCompileHandler(_ArglistCtx(l0, c0, l1, c1), ctx)  # type: ignore
    mark = SsbOpParamPositionMarker(name, xo, yo, xr, yr)
    args: list[Any] = [7, SsbOpParamConstant("C")]
    args.insert(k, mark)
    for a in args:
        h.add(A(a))
    got = h.collect()
    marks = smb.build().get_position_marks__direct()
    ok = got == args and got[k] is mark and len(marks) == 1
    if ok:
        m = marks[0]
        ok = (m.name == name and m.x_offset == xo and m.y_offset == yo and m.x_relative == xr and m.y_relative == yr
              and m.line_number == l0 - 1 and m.column_number == c0)
    return verdict(ok)


OBLIGATIONS = [
    {"id": "C08.S2", "module": __name__, "func": "h_macro_build",
     "what": "macro expansion entries: every emitted op gets a macro entry under its offset (defining macro, file None for "
             "the same file), the call site sits exactly on the first op, the return address lies after every op of its "
             "expansion and is the number of the first op following it, nested entries are relayed with substituted "
             "parameter mapping, offsets are consecutive from the counter, jumps stay inside the expansion",
     "cases": [0, 1, 2], "timeout": {"quick": 300, "thorough": 900},
     "bounds": "macros: flat / with label+jump+return / nested with two inner calls (case split, blueprints compiled by the "
               "real MacroVisitor); op counter start symbolic in 0..8, label counter start in 0..3, call line and column symbolic (unbounded)",
     "encodes": ["explorerscript.macro.ExplorerScriptMacro.build", "explorerscript.macro.ExplorerScriptMacro._build_op",
                 "explorerscript.source_map.SourceMapBuilder.add_macro_opcode",
                 "explorerscript.source_map.SourceMapBuilder.macro_context__push"]},
    {"id": "C08.S2b", "module": __name__, "func": "h_two_builds_private",
     "what": "two successive expansions share no label object or id, substitute their own arguments and leave the "
             "blueprint intact",
     "timeout": {"quick": 300, "thorough": 900}, "bounds": "counter start 0..50",
     "encodes": ["explorerscript.macro.ExplorerScriptMacro.build", "explorerscript.macro.ExplorerScriptMacro._process_parameters"]},
    {"id": "C08.S4", "module": __name__, "func": "h_arglist_marks",
     "what": "ArgListCompileHandler records exactly one position mark per position-mark argument with the fields of the "
             "emitted parameter",
     "timeout": {"quick": 300, "thorough": 900},
     "bounds": "mark at argument index 0-2, all fields and token positions symbolic, |name| <= 2",
     "encodes": ["explorerscript.ssb_converting.compiler.compile_handlers.operations.arg_list.ArgListCompileHandler.collect"],
     "stubs": ["ArglistContext and argument handlers replaced by stand-ins"]},
]
